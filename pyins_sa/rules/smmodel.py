"""SM-MODEL - the estimation model of an inertial sensor triad, executed for enable masks.

EstimationModel.__init__ is ordinary Python over three loops and 18 enable tests.  The
normalising evaluator executes it (and output_matrix, update_estimates, get_estimates on the
object it builds) with SYMBOLIC parameter magnitudes for a covering family of enable masks:
all off, all on, every flag alone, every flag alone off, and a fixed pseudo-random sample.  An
enabled parameter is a positive infinitesimal atom (any positive value must enable), a disabled
one is 0 or -1 ("non-positive disables").  For every mask the object must satisfy the reference
semantics of the class documentation and of property C14:

  states      one state per enabled bias axis / scale-misalignment element, named bias_<a> /
              sm_<out><in>, no other; n_states = len(states)
  P           diagonal, P[k, k] = (sd of the parameter state k is named after)^2
  H, F        constant output matrix: 1 in (axis, state of bias_<axis>), 0 elsewhere; F = 0
  G, q        one noise column per walk-enabled axis: G[state of its bias, m] = 1,
              q[m] = bias_walk[axis]; nothing else
  J, v        one output-noise column per noise-enabled axis: J[axis, m] = 1, v[m] = noise[axis]
  counts      n_states / n_noises / n_output_noises equal the array dimensions;
              scale_misal_modelled <=> some scale-misalignment state exists
  output      output_matrix(r) @ x = [bias_<o>] + sum_i [sm_<o><i>] * r_i, single and stacked
  estimates   update_estimates(x); update_estimates(y) leaves bias / transform = nominal +
              (x + y) at the element each state is named after; get_estimates returns x + y in
              the order of `states`

The structural rules (SM-COUNT, SM-NAMES, SM-ROLE) argue for all 2^18 masks at once; this rule
decides VALUES, for the sampled masks exactly.
"""
import ast
import random

from ..expr import SymEval, SArray, Unsupported, RuntimeFailure, Opaque
from ..model import AnalysisError, norm_text
from ..nf import Alg, Rat

XYZ = 'xyz'


class _Hooks:
    """enabled parameter atoms (prefix p_) behave as positive infinitesimals in comparisons
    with constants; validation blocks (`if ...: raise`) are evaluated for valid masks only"""

    def compare(self, ev, node, a, b):
        A = ev.A
        try:
            ra, rb = ev.rat(a), ev.rat(b)
        except Exception:
            return None
        if A.is_const(ra) and A.is_const(rb):
            return None
        op = type(node.ops[0])
        flip = {ast.Gt: ast.Lt, ast.GtE: ast.LtE, ast.Lt: ast.Gt, ast.LtE: ast.GtE,
                ast.Eq: ast.Eq, ast.NotEq: ast.NotEq}
        if op not in flip:
            return None
        # a - b = c0 + k * p with one parameter atom p = 0+ : the sign is that of c0, or of k
        d = A.sub(ra, rb)
        at = A.atoms_of(d)
        if len(at) != 1 or not next(iter(at)).startswith('p_'):
            return None
        try:
            ds = A.degree_split(d, next(iter(at)))
        except ValueError:
            return None
        if not set(ds) <= {0, 1} or not all(A.is_const(v) for v in ds.values()):
            return None
        c0 = A.const_of(ds[0]) if 0 in ds else 0
        k = A.const_of(ds[1]) if 1 in ds else 0
        sign = (c0 > 0) - (c0 < 0) if c0 != 0 else (k > 0) - (k < 0)
        if sign == 0:
            return None
        return {ast.Gt: sign > 0, ast.GtE: sign > 0, ast.Lt: sign < 0, ast.LtE: sign < 0,
                ast.Eq: False, ast.NotEq: True}[op]

    def call(self, ev, q, node, args, kwargs, env):
        return self.abs_call(ev, q, args)

    def abs_call(self, ev, q, args):
        # |c0 + k p| for one infinitesimal parameter atom p = 0+
        if q in ('builtins.abs', 'numpy.abs', 'numpy.fabs', 'numpy.absolute') and len(args) == 1 \
                and isinstance(args[0], Rat):
            A = ev.A
            d = args[0]
            at = A.atoms_of(d)
            if A.is_const(d):
                return A.const(abs(A.const_of(d)))
            if len(at) == 1 and next(iter(at)).startswith('p_'):
                try:
                    ds = A.degree_split(d, next(iter(at)))
                except ValueError:
                    return NotImplemented
                if set(ds) <= {0, 1} and all(A.is_const(v) for v in ds.values()):
                    c0 = A.const_of(ds[0]) if 0 in ds else 0
                    k = A.const_of(ds[1]) if 1 in ds else 0
                    neg = c0 < 0 or (c0 == 0 and k < 0)
                    return A.neg(d) if neg else d
        return NotImplemented

    def branch(self, ev, st, env):
        if isinstance(st, ast.If) and len(st.body) == 1 and isinstance(st.body[0], ast.Raise) \
                and not st.orelse:
            try:
                c = ev.truth(ev.eval(st.test, env))
            except Unsupported:
                return False
            return c if isinstance(c, bool) else False
        return None


def _masks():
    """(bias[3], walk[3], noise[3], sm[9]) tuples of 0/1; walk only where bias"""
    out = []

    def add(b, w, n, s):
        w = [x and y for x, y in zip(w, b)]
        m = (tuple(b), tuple(w), tuple(n), tuple(s))
        if m not in out:
            out.append(m)
    add([0] * 3, [0] * 3, [0] * 3, [0] * 9)
    add([1] * 3, [1] * 3, [1] * 3, [1] * 9)
    for k in range(18):
        for base in (0, 1):
            f = [base] * 18
            f[k] = 1 - base
            b, w, n, s = f[:3], f[3:6], f[6:9], f[9:]
            if base == 0 and 3 <= k < 6:
                b[k - 3] = 1                 # a walk needs its bias
            if base == 1 and k < 3:
                w[k] = 0
            add(b, w, n, s)
    g = random.Random(20240914)
    for _ in range(40):
        f = [g.random() < 0.5 for _ in range(18)]
        add([int(x) for x in f[:3]], [int(x) for x in f[3:6]], [int(x) for x in f[6:9]],
            [int(x) for x in f[9:]])
    return out


def _mask_text(m):
    b, w, n, s = m
    return 'bias=%s walk=%s noise=%s sm=%s' % (
        ''.join(XYZ[i] for i in range(3) if b[i]) or '-',
        ''.join(XYZ[i] for i in range(3) if w[i]) or '-',
        ''.join(XYZ[i] for i in range(3) if n[i]) or '-',
        ','.join(XYZ[k // 3] + XYZ[k % 3] for k in range(9) if s[k]) or '-')


def _arr(A, name, shape, flags, k_mask):
    out = SArray(shape, {})
    for k, i in enumerate(out.indices()):
        if flags[k]:
            out.entries[i] = A.sym('p_%s%s' % (name, ''.join(map(str, i))))
        else:
            out.entries[i] = A.const(0 if (k + k_mask) % 2 == 0 else -1)
    return out


def _nz(A, arr):
    return {i: x for i, x in arr.entries.items() if not A.is_zero(x)}


def _check_mask(ctx, cls, m, k_mask, fail, form='array'):
    """evaluate one mask; append (aspect, text) to `fail`.  form: 'array' (3-vectors / 3x3 of
    per-element values), 'none' (every parameter None: everything disabled), 'scalar' (one
    positive float per parameter: the same value for all axes)"""
    repo = ctx.repo
    b, w, n, s = m
    A = Alg()
    ev = SymEval(repo, A, hooks=_Hooks())
    ev.mutable_lists = True
    if form == 'scalar':
        def same(name, shape):
            out = SArray(shape, {})
            for i in out.indices():
                out.entries[i] = A.sym('p_' + name)
            return out
        bs, no, bw, sm = same('bs', (3,)), same('no', (3,)), same('bw', (3,)), same('sm', (3, 3))
        actual = {'bias_sd': A.sym('p_bs'), 'noise': A.sym('p_no'), 'bias_walk': A.sym('p_bw'),
                  'scale_misal_sd': A.sym('p_sm')}
    else:
        bs = _arr(A, 'bs', (3,), b, k_mask)
        no = _arr(A, 'no', (3,), n, k_mask)
        bw = _arr(A, 'bw', (3,), w, k_mask)
        sm = _arr(A, 'sm', (3, 3), s, k_mask)
        actual = {'bias_sd': bs, 'noise': no, 'bias_walk': bw, 'scale_misal_sd': sm}
        if form == 'none':
            actual = {k: None for k in actual}
    init = cls.methods['__init__']
    names = init.params[1:]
    kw = {}
    for p_, v in actual.items():
        if p_ not in names:
            raise AnalysisError('EstimationModel.__init__ has no parameter %s' % p_)
        kw[p_] = v
    o = ev.construct(cls, [], kw)
    at = o.attrs
    for a_ in ('states', 'n_states', 'n_noises', 'n_output_noises', 'P', 'q', 'F', 'G', 'H', 'J',
               'v', 'scale_misal_modelled', 'bias', 'transform'):
        if a_ not in at:
            raise AnalysisError('EstimationModel has no attribute %s after construction' % a_)
    states = at['states']
    if not (isinstance(states, list) and all(isinstance(x, str) for x in states)):
        raise AnalysisError('EstimationModel.states is not a list of concrete names')
    want = ['bias_' + XYZ[i] for i in range(3) if b[i]] + \
           ['sm_' + XYZ[k // 3] + XYZ[k % 3] for k in range(9) if s[k]]
    if sorted(states) != sorted(want):
        fail.append(('states', 'states = %s, expected the set %s' % (states, want)))
        return
    ns = len(states)
    idx = {nm: k for k, nm in enumerate(states)}

    def dims(name, shape):
        v = at[name]
        if not isinstance(v, SArray) or v.shape != shape or v.sample:
            fail.append(('counts', '%s has shape %s, expected %s'
                         % (name, getattr(v, 'shape', None), shape)))
            return False
        return True
    nw, nn = sum(w), sum(n)
    for a_, want_v in (('n_states', ns), ('n_noises', nw), ('n_output_noises', nn)):
        if at[a_] != want_v:
            fail.append(('counts', '%s = %r, expected %d' % (a_, at[a_], want_v)))
    if at['scale_misal_modelled'] is not bool(sum(s)):
        fail.append(('counts', 'scale_misal_modelled = %r with %d scale/misalignment states'
                     % (at['scale_misal_modelled'], sum(s))))
    ok = all([dims('P', (ns, ns)), dims('F', (ns, ns)), dims('G', (ns, nw)), dims('H', (3, ns)),
              dims('q', (nw,)), dims('J', (3, nn)), dims('v', (nn,))])
    if not ok:
        return
    sd = {}
    for i in range(3):
        if b[i]:
            sd['bias_' + XYZ[i]] = bs.get((i,))
    for k in range(9):
        if s[k]:
            sd['sm_' + XYZ[k // 3] + XYZ[k % 3]] = sm.get((k // 3, k % 3))
    # P
    P = _nz(A, at['P'])
    wantP = {(idx[nm], idx[nm]): A.mul(v, v) for nm, v in sd.items()}
    if set(P) != set(wantP) or any(not A.eq(P[i], wantP[i]) for i in wantP):
        bad = sorted(set(P) ^ set(wantP)) or [i for i in wantP if not A.eq(P[i], wantP[i])]
        i = bad[0]
        fail.append(('P', 'P%s = %s, expected %s (state %s)'
                     % (list(i), A.key(P[i]) if i in P else '0',
                        A.key(wantP[i]) if i in wantP else '0',
                        states[i[0]] if i[0] < ns else '?')))
    # F
    if _nz(A, at['F']):
        fail.append(('F', 'F has non-zero entries %s (biases and scale/misalignment errors are '
                          'random constants)' % sorted(_nz(A, at['F']))[:3]))
    # H constant part
    Hc = _nz(A, at['H'])
    wantH = {(i, idx['bias_' + XYZ[i]]): A.const(1) for i in range(3) if b[i]}
    if set(Hc) != set(wantH) or any(not A.eq(Hc[i], wantH[i]) for i in wantH):
        fail.append(('H', 'constant output matrix has non-zero entries %s, expected 1 at %s'
                     % ({tuple(i): A.key(x) for i, x in Hc.items()}, sorted(wantH))))
    # G, q
    G, q = _nz(A, at['G']), at['q']
    cols = {}
    for (r_, c_), x in G.items():
        cols.setdefault(c_, []).append((r_, x))
    okG = len(cols) == nw and all(len(v) == 1 for v in cols.values())
    seen = set()
    if okG:
        for c_, [(r_, x)] in cols.items():
            nm = states[r_]
            ax = XYZ.index(nm[-1]) if nm.startswith('bias_') else None
            if ax is None or not w[ax] or not A.eq(x, A.const(1)) or \
                    not A.eq(q.get((c_,)), bw.get((ax,))) or ax in seen:
                okG = False
                break
            seen.add(ax)
    if not okG or len(seen) != nw:
        fail.append(('G', 'G = %s, q = %s: expected one column per walk-enabled axis with 1 in '
                          'the row of its bias state and q = bias_walk of that axis'
                     % ({tuple(i): A.key(x) for i, x in G.items()},
                        [A.key(q.get((i,))) for i in range(nw)])))
    # J, v
    J, v = _nz(A, at['J']), at['v']
    cols = {}
    for (r_, c_), x in J.items():
        cols.setdefault(c_, []).append((r_, x))
    okJ = len(cols) == nn and all(len(x) == 1 for x in cols.values())
    seen = set()
    if okJ:
        for c_, [(r_, x)] in cols.items():
            if not n[r_] or not A.eq(x, A.const(1)) or \
                    not A.eq(v.get((c_,)), no.get((r_,))) or r_ in seen:
                okJ = False
                break
            seen.add(r_)
    if not okJ or len(seen) != nn:
        fail.append(('J', 'J = %s, v = %s: expected one column per noise-enabled axis with 1 in '
                          'the row of that axis and v = noise of that axis'
                     % ({tuple(i): A.key(x) for i, x in J.items()},
                        [A.key(v.get((i,))) for i in range(nn)])))
    # output matrix times state
    x = SArray((ns,), {(k,): A.sym('x_' + nm) for nm, k in idx.items()})
    om = cls.methods.get('output_matrix')
    if om is None:
        raise AnalysisError('EstimationModel.output_matrix missing')
    for stacked in (False, True):
        ev2 = SymEval(repo, A, hooks=_Hooks())
        ev2.mutable_lists = True
        ev2.stacked = stacked
        r = SArray((3,), {(i,): A.sym('r%d' % i) for i in range(3)}, None, stacked)
        Hm = ev2.call_function(om, [r], {}, o)
        if not isinstance(Hm, SArray) or Hm.shape != (3, ns):
            fail.append(('output', 'output_matrix returns shape %s for %s readings'
                         % (getattr(Hm, 'shape', None), 'stacked' if stacked else 'single')))
            continue
        if stacked and sum(s) and not Hm.sample:
            fail.append(('output', 'output_matrix returns one matrix for stacked readings'))
        for o_ in range(3):
            got = A.const(0)
            for k in range(ns):
                got = A.add(got, A.mul(Hm.get((o_, k)), x.get((k,))))
            exp = A.const(0)
            if b[o_]:
                exp = A.add(exp, A.sym('x_bias_' + XYZ[o_]))
            for i in range(3):
                if s[3 * o_ + i]:
                    exp = A.add(exp, A.mul(A.sym('x_sm_' + XYZ[o_] + XYZ[i]), A.sym('r%d' % i)))
            if not A.eq(got, exp):
                fail.append(('output', '%s readings: (output_matrix(r) @ x)[%s] = %s, expected %s'
                             % ('stacked' if stacked else 'single', XYZ[o_], A.key(got)[:120],
                                A.key(exp)[:120])))
                break
    # estimates: two updates accumulate, read-back returns the sum in the order of states
    y = SArray((ns,), {(k,): A.sym('y_' + nm) for nm, k in idx.items()})
    up, ge = cls.methods.get('update_estimates'), cls.methods.get('get_estimates')
    if up is None or ge is None:
        raise AnalysisError('EstimationModel.update_estimates / get_estimates missing')
    ev.call_function(up, [x], {}, o)
    ev.call_function(up, [y], {}, o)
    bias, tr = o.attrs['bias'], o.attrs['transform']
    tot = lambda nm: A.add(A.sym('x_' + nm), A.sym('y_' + nm))
    for i in range(3):
        exp = tot('bias_' + XYZ[i]) if b[i] else A.const(0)
        if not A.eq(bias.get((i,)), exp):
            fail.append(('estimates', 'after two updates bias[%d] = %s, expected %s'
                         % (i, A.key(bias.get((i,))), A.key(exp))))
    for k in range(9):
        exp = A.const(1 if k // 3 == k % 3 else 0)
        if s[k]:
            exp = A.add(exp, tot('sm_' + XYZ[k // 3] + XYZ[k % 3]))
        if not A.eq(tr.get((k // 3, k % 3)), exp):
            fail.append(('estimates', 'after two updates transform[%d,%d] = %s, expected %s'
                         % (k // 3, k % 3, A.key(tr.get((k // 3, k % 3))), A.key(exp))))
    got = ev.call_function(ge, [], {}, o)
    vals = labels = None
    if isinstance(got, Opaque) and got.tag == 'extcall' and str(got.parts[0]).endswith('Series'):
        args_, kw_ = got.parts[1], got.parts[2]
        vals = args_[0] if args_ else kw_.get('data')
        labels = kw_.get('index', args_[1] if len(args_) > 1 else None)
    elif isinstance(got, (list, SArray)):
        vals, labels = got, states
    if isinstance(vals, SArray):
        vals = [vals.get((k,)) for k in range(vals.shape[0])]
    if not isinstance(vals, list) or labels is None:
        raise AnalysisError('EstimationModel.get_estimates: result not recognised')
    if list(labels) != list(states) or len(vals) != ns or any(
            not A.eq(ev.rat(vals[k]), tot(states[k])) for k in range(ns)):
        fail.append(('estimates', 'get_estimates returns %s labelled %s, expected the accumulated '
                                  'estimates in the order of states %s'
                     % ([A.key(ev.rat(z))[:40] for z in vals][:4], list(labels)[:4], states[:4])))


ASPECTS = [
    ('states', 'one state per enabled bias axis / scale-misalignment element, named after it'),
    ('counts', 'n_states, n_noises, n_output_noises, scale_misal_modelled and the shapes of P, '
               'F, G, H, q, J, v agree with the enabled subset'),
    ('P', 'initial covariance is diagonal with the squared sd of the parameter each state is '
          'named after'),
    ('F', 'no dynamics: F = 0'),
    ('H', 'constant output matrix: 1 at (axis, state of its bias)'),
    ('G', 'one unit noise column per walk-enabled axis into its bias state, q = bias_walk'),
    ('J', 'one unit output-noise column per noise-enabled axis, v = noise'),
    ('output', 'output_matrix(readings) @ x = bias + scale/misalignment error of the reading, '
               'single and stacked readings'),
    ('estimates', 'two updates accumulate into bias / transform at the named element; '
                  'get_estimates reads them back in the order of states'),
]


def sm_model(ctx):
    ctx.rule('SM-MODEL', 'EstimationModel executed symbolically for a covering family of enable '
             'masks: states, dimensions, P, F, G/q, H, J/v, output matrix times state, estimate '
             'accumulation and read-back have the documented values')
    cls = ctx.repo.klass('inertial_sensor.EstimationModel')
    for mn in ('__init__', 'output_matrix', 'update_estimates', 'get_estimates'):
        ctx.need(mn in cls.methods, 'EstimationModel.%s missing' % mn)
        ctx.touch(cls.methods[mn])
    masks = _masks()
    ctx.floor('SM-MODEL', len(masks), 60, 'enable masks')
    failures = {}
    off = ((0,) * 3, (0,) * 3, (0,) * 3, (0,) * 9)
    on = ((1,) * 3, (1,) * 3, (1,) * 3, (1,) * 9)
    runs = [(m, 'array') for m in masks] + [(off, 'none'), (on, 'scalar')]
    for k, (m, form) in enumerate(runs):
        fail = []
        try:
            _check_mask(ctx, cls, m, k, fail, form)
        except RuntimeFailure as e:
            fail.append(('states', 'raises at run time: %s' % e))
        except Unsupported as e:
            raise AnalysisError('EstimationModel not analysable for the mask %s (%s form): %s'
                                % (_mask_text(m), form, e))
        for asp, txt in fail:
            failures.setdefault(asp, []).append(
                (m, txt if form == 'array' else '(parameters given as %s) %s'
                 % ('None' if form == 'none' else 'one float each', txt)))
    init = cls.methods['__init__']
    where = {'output': cls.methods['output_matrix'], 'estimates': cls.methods['update_estimates']}
    for asp, text in ASPECTS:
        bad = failures.get(asp, [])
        f = where.get(asp, init)
        ctx.ob('SM-MODEL', not bad, None, '%s (%d enable masks)' % (text, len(masks)), f=f,
               node=f.node, key=asp,
               why='%s - violated for %d of %d enable masks, first: [%s] %s'
                   % (text, len({m_ for m_, _ in bad}), len(masks),
                      _mask_text(bad[0][0]) if bad else '',
                      bad[0][1] if bad else ''))


# ---------------------------------------------------------------------------- SM-PARAMS
def sm_params(ctx):
    """The simulator's parameter table, executed: the statements of Parameters.apply from the
    creation of `self.data_frame` on are run for enable masks (an enabled bias / walk / transform
    deviation is a positive infinitesimal atom, a disabled one exactly nominal)."""
    from ..expr import Rec, Obj
    ctx.rule('SM-PARAMS', "Parameters.apply: the parameter table has exactly one column 'bias_<a>' "
             "per axis with a bias or a bias walk (holding the simulated bias of that axis) and one "
             "column 'sm_<out><in>' per transform element that differs from the identity (holding "
             "the deviation), for a covering family of masks - the names the estimator gives the "
             'same terms (SM-MODEL)')
    repo = ctx.repo
    cls = repo.klass('inertial_sensor.Parameters')
    ap = cls.methods.get('apply')
    ctx.need(ap is not None, 'Parameters.apply missing')
    ctx.touch(ap)
    body = ap.node.body
    start = [i for i, st in enumerate(body) if isinstance(st, ast.Assign) and
             norm_text(st.targets[0]) == 'self.data_frame']
    ctx.need(len(start) == 1, 'Parameters.apply: creation of self.data_frame not found')
    tail = [st for st in body[start[0]:] if not isinstance(st, ast.Return)]
    # the local holding the simulated bias series: the 2-D local indexed [:, axis] in the tail
    series = {n.value.id for st in tail for n in ast.walk(st)
              if isinstance(n, ast.Subscript) and isinstance(n.value, ast.Name) and
              isinstance(n.slice, ast.Tuple) and len(n.slice.elts) == 2 and
              isinstance(n.slice.elts[0], ast.Slice)}
    ctx.need(len(series) == 1, 'Parameters.apply: bias series local not identified (%s)'
             % sorted(series))
    sname = next(iter(series))
    masks = []
    g = random.Random(7)

    def add(b, w, s):
        m = (tuple(b), tuple(w), tuple(s))
        if m not in masks:
            masks.append(m)
    add([0] * 3, [0] * 3, [0] * 9)
    add([1] * 3, [1] * 3, [1] * 9)
    for k in range(15):
        f = [0] * 15
        f[k] = 1
        add(f[:3], f[3:6], f[6:])
    for _ in range(20):
        f = [int(g.random() < 0.5) for _ in range(15)]
        add(f[:3], f[3:6], f[6:])

    class H(_Hooks):
        def call(self, ev, q, node, args, kwargs, env):
            if q == 'pandas.DataFrame' and not args and set(kwargs) <= {'index'}:
                return Rec({}, 'frame')
            return self.abs_call(ev, q, args)
    bad = []
    for m in masks:
        b, w, s = m
        A = Alg()
        ev = SymEval(repo, A, hooks=H())
        ev.mutable_lists = True
        ev.cur, ev.depth = ap, 1
        o = Obj(cls)
        tr = SArray((3, 3), {})
        for k in range(9):
            nom = A.const(1 if k // 3 == k % 3 else 0)
            tr.entries[(k // 3, k % 3)] = A.add(nom, A.sym('p_t%d%d' % (k // 3, k % 3))) \
                if s[k] else nom
        o.attrs['transform'] = tr
        o.attrs['bias'] = SArray((3,), {(i,): (A.sym('p_b%d' % i) if b[i] else A.const(0))
                                        for i in range(3)})
        o.attrs['bias_walk'] = SArray((3,), {(i,): (A.sym('p_w%d' % i) if w[i] else A.const(0))
                                             for i in range(3)})
        env = {'self': o, 'readings': Rec({'c0': A.sym('r0'), 'c1': A.sym('r1'),
                                           'c2': A.sym('r2')}, 'frame'),
               sname: SArray((3,), {(i,): A.sym('series_%d' % i) for i in range(3)}, None, True)}
        try:
            ev.exec_block(tail, env)
        except RuntimeFailure as e:
            bad.append((m, 'raises at run time: %s' % e))
            continue
        except Unsupported as e:
            raise AnalysisError('Parameters.apply (table part) not analysable: %s' % e)
        df = o.attrs.get('data_frame')
        if not isinstance(df, Rec):
            raise AnalysisError('Parameters.apply: self.data_frame is not a table')
        want = {}
        for i in range(3):
            if b[i] or w[i]:
                want['bias_' + XYZ[i]] = A.sym('series_%d' % i)
        for k in range(9):
            if s[k]:
                want['sm_' + XYZ[k // 3] + XYZ[k % 3]] = A.sym('p_t%d%d' % (k // 3, k % 3))
        got = df.cols
        if set(got) != set(want):
            bad.append((m, 'columns %s, expected %s' % (sorted(got), sorted(want))))
            continue
        for c in want:
            v = got[c]
            if isinstance(v, SArray) and v.shape == ():
                v = v.get(())
            if not isinstance(v, Rat) or not A.eq(v, want[c]):
                bad.append((m, "column '%s' holds %s, expected %s"
                            % (c, A.key(v)[:60] if isinstance(v, Rat) else v, A.key(want[c]))))
                break
    ctx.floor('SM-PARAMS', len(masks), 30, 'masks')

    def mt(m):
        b, w, s = m
        return 'bias=%s walk=%s transform deviations=%s' % (
            ''.join(XYZ[i] for i in range(3) if b[i]) or '-',
            ''.join(XYZ[i] for i in range(3) if w[i]) or '-',
            ','.join(XYZ[k // 3] + XYZ[k % 3] for k in range(9) if s[k]) or '-')
    ctx.ob('SM-PARAMS', not bad, None, 'parameter table columns and values (%d masks)' % len(masks),
           f=ap, node=body[start[0]], key='table',
           why='the parameter table of Parameters.apply is wrong for %d of %d masks, first: [%s] %s'
               % (len({m_ for m_, _ in bad}), len(masks), mt(bad[0][0]) if bad else '',
                  bad[0][1] if bad else ''))


# ---------------------------------------------------------------------------- SM-DRAW
def sm_draw(ctx):
    """Parameters.from_EstimationModel executed with a symbolic random state."""
    from ..expr import Obj, Opaque
    ctx.rule('SM-DRAW', 'Parameters.from_EstimationModel: transform - I = scale_misal_sd * (unit '
             'draws, one per element), bias = bias_sd * (unit draws, one per axis), noise and bias '
             'walk are the model\'s own, the random state is handed on; the defaults of Parameters '
             'are the error-free sensor (identity, zeros)')
    repo = ctx.repo
    cls = repo.klass('inertial_sensor.Parameters')
    fe = cls.methods.get('from_EstimationModel')
    ctx.need(fe is not None, 'Parameters.from_EstimationModel missing')
    ctx.touch(fe)
    A = Alg()
    draws = []

    class H(_Hooks):
        def call(self, ev, q, node, args, kwargs, env):
            if q is not None and q.endswith('check_random_state'):
                return args[0] if args and isinstance(args[0], Opaque) else Opaque('rng')
            return self.abs_call(ev, q, args)

        def attr(self, ev, base, a, node):
            if isinstance(base, Opaque) and base.tag == 'rng' and a == 'randn':
                def draw(*shape):
                    if not all(isinstance(d, int) for d in shape):
                        raise Unsupported('random draw of shape %r' % (shape,))
                    k = len(draws)
                    out = SArray(tuple(shape), {})
                    for i in out.indices():
                        out.entries[i] = A.sym('n%d_%s' % (k, '_'.join(map(str, i))))
                    draws.append(out)
                    return out
                return draw
            return None
    ev = SymEval(repo, A, hooks=H())
    model = Obj(repo.klass('inertial_sensor.EstimationModel'))
    vec = lambda nm, shp: SArray(shp, {i: A.sym('%s%s' % (nm, ''.join(map(str, i))))
                                       for i in SArray(shp, {}).indices()})
    model.attrs.update(bias_sd=vec('bs', (3,)), noise=vec('no', (3,)), bias_walk=vec('bw', (3,)),
                       scale_misal_sd=vec('sm', (3, 3)))
    rng = Opaque('rng')
    try:
        o = ev.call_function(fe, [model, rng], {}, cls if fe.is_classmethod else Obj(cls))
    except RuntimeFailure as e:
        ctx.ob('SM-DRAW', False, None, 'from_EstimationModel evaluates', f=fe, node=fe.node,
               key='raises', why='Parameters.from_EstimationModel raises: %s' % e)
        return
    except Unsupported as e:
        raise AnalysisError('Parameters.from_EstimationModel not analysable: %s' % e)
    ctx.need(isinstance(o, Obj) and all(k in o.attrs for k in
                                        ('transform', 'bias', 'noise', 'bias_walk', 'rng')),
             'Parameters.from_EstimationModel: result is not a Parameters object')
    used = set()

    def unit_of(v, sd):
        """v = +- sd * n for a unit draw n not used before -> True"""
        if not isinstance(v, Rat):
            return False
        for a_ in sorted(A.atoms_of(v)):
            if a_.startswith('n') and a_ not in used and '_' in a_:
                if A.eq(v, A.mul(sd, A.sym(a_))) or A.eq(v, A.neg(A.mul(sd, A.sym(a_)))):
                    used.add(a_)
                    return True
        return False
    tr, bi = o.attrs['transform'], o.attrs['bias']
    okt = isinstance(tr, SArray) and tr.shape == (3, 3) and all(
        unit_of(A.sub(tr.get((i, j)), A.const(1 if i == j else 0)),
                model.attrs['scale_misal_sd'].get((i, j))) for i in range(3) for j in range(3))
    ctx.ob('SM-DRAW', okt, None, 'transform = I + scale_misal_sd * unit draws (element-wise, '
           'independent)', f=fe, node=fe.node, key='transform',
           why='the simulated transform is not identity + scale_misal_sd[i, j] * (an independent '
               'unit draw) in every element')
    okb = isinstance(bi, SArray) and bi.shape == (3,) and all(
        unit_of(bi.get((i,)), model.attrs['bias_sd'].get((i,))) for i in range(3))
    ctx.ob('SM-DRAW', okb, None, 'bias = bias_sd * unit draws (per axis, independent)', f=fe,
           node=fe.node, key='bias',
           why='the simulated bias is not bias_sd[axis] * (an independent unit draw) per axis')
    for nm in ('noise', 'bias_walk'):
        v = o.attrs[nm]
        ok = isinstance(v, SArray) and v.shape == (3,) and all(
            A.eq(v.get((i,)), model.attrs[nm].get((i,))) for i in range(3))
        ctx.ob('SM-DRAW', ok, None, '%s is the model\'s %s' % (nm, nm), f=fe, node=fe.node,
               key=nm, why='the simulated %s is not the %s of the estimation model' % (nm, nm))
    ctx.ob('SM-DRAW', o.attrs['rng'] is rng, None, 'the random state is handed on', f=fe,
           node=fe.node, key='rng',
           why='the Parameters object does not continue with the random state the parameters were '
               'drawn from')
    # defaults: error-free sensor
    ev2 = SymEval(repo, Alg(), hooks=H())
    try:
        d = ev2.construct(cls, [], {})
    except Unsupported as e:
        raise AnalysisError('Parameters() not analysable: %s' % e)
    A2 = ev2.A
    tr, bi, no, bw = (d.attrs.get(k) for k in ('transform', 'bias', 'noise', 'bias_walk'))
    okd = isinstance(tr, SArray) and tr.shape == (3, 3) and all(
        A2.eq(tr.get((i, j)), A2.const(1 if i == j else 0)) for i in range(3) for j in range(3)) \
        and all(isinstance(v, SArray) and v.shape == (3,) and
                all(A2.is_zero(v.get((i,))) for i in range(3)) for v in (bi, no, bw))
    init = cls.methods['__init__']
    ctx.ob('SM-DRAW', okd, None, 'Parameters() is the error-free sensor', f=init, node=init.node,
           key='defaults',
           why='Parameters() without arguments is not identity transform / zero bias, noise and '
               'bias walk')
