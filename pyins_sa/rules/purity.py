"""C19 - purity, determinism plumbing and documented schemas.

PUR-ARG     no public callable writes into an argument (directly, through a numpy view /
            .values / asarray of it, through a callee, or through an overwrite_* / out= flag)
PUR-FIELD   no method writes into a field that holds a constructor argument
PUR-GLOBAL  no write into module / class constants
RNG-SRC     every random draw is a method of an object that comes from
            check_random_state(<parameter>); no global random state, clocks, ids
SCH-RET     returned tables of documented kind carry that kind's columns
SCH-USE     constant column keys read from a value of documented kind belong to the kind
"""
import ast

from ..effects import Effects
from ..model import AnalysisError, norm_text, FunctionInfo

# exact whitelist: (function, parameter) -> reason.  Only *state changes of a passed model
# object through its own methods* are covered, never writes into arrays or tables.
STATE_WHITELIST = {
    ('run_feedback_filter', 'gyro_model'): 'documented: filter resets/updates sensor estimates',
    ('run_feedback_filter', 'accel_model'): 'documented: filter resets/updates sensor estimates',
    ('run_feedforward_filter', 'gyro_model'): 'documented: filter resets sensor estimates',
    ('run_feedforward_filter', 'accel_model'): 'documented: filter resets sensor estimates',
    ('apply_imu_parameters', 'gyro_parameters'):
        'Parameters.apply documents that it fills data_frame and draws from its own rng',
    ('apply_imu_parameters', 'accel_parameters'):
        'Parameters.apply documents that it fills data_frame and draws from its own rng',
}

KINDS = {
    'Trajectory': 'util.TRAJECTORY_COLS', 'Pva': 'util.TRAJECTORY_COLS',
    'TrajectoryError': 'util.TRAJECTORY_ERROR_COLS', 'PvaError': 'util.TRAJECTORY_ERROR_COLS',
}


def _effects(ctx):
    if 'effects' not in ctx.cache:
        ctx.cache['effects'] = Effects(ctx.repo, ctx.types)
    return ctx.cache['effects']


def pur_rules(ctx):
    ctx.rule('PUR-ARG', 'no public callable writes into an argument (directly, via a view, via '
             'a callee or via an overwrite/out flag)')
    ctx.rule('PUR-FIELD', 'no method writes into a field that holds a constructor argument')
    ctx.rule('PUR-GLOBAL', 'no write to module/class constants')
    E = _effects(ctx)
    pub = ctx.repo.public_surface()
    ctx.floor('PUR-ARG', len(pub), 60, 'public callables')
    n_params = 0
    n_sinks = 0
    for f in pub:
        S = E.sum[f.fq]
        params = [p for p in f.params + f.kwonly]
        if f.cls is not None and not f.is_static:
            params = params[1:]
        written = S.writes
        for p in params:
            n_params += 1
            sites = written.get(p, [])
            real = []
            for node, reason, state in sites:
                if state and (f.name, p) in STATE_WHITELIST:
                    continue
                real.append((node, reason))
            ok = not real
            if ok:
                ctx.ob('PUR-ARG', True, None, 'argument %s of %s is never written' % (p, f.qualname),
                       f=f, key='arg-%s' % p)
            for node, reason in real[:3]:
                ctx.ob('PUR-ARG', False, None, 'argument %s of %s is never written'
                       % (p, f.qualname), f=f, node=node, key='arg-%s:%s' % (p, norm_text(node)),
                       why="public %s modifies its argument '%s': %s"
                           % (f.qualname, p, reason))
        for key, sites in written.items():
            if key.startswith('<global'):
                for node, reason, _ in sites[:3]:
                    ctx.ob('PUR-GLOBAL', False, None, 'no write to %s' % key, f=f, node=node,
                           why='%s writes into shared constant %s: %s' % (f.qualname, key, reason))
            elif key.startswith('<field'):
                for node, reason, _ in sites[:3]:
                    ctx.ob('PUR-FIELD', False, None, 'no write to %s' % key, f=f, node=node,
                           why='%s writes into %s (%s): the array the caller passed to the '
                               'constructor is modified' % (f.qualname, key, reason))
        n_sinks += sum(len(v) for v in written.values()) + len(S.self_writes)
    # private functions can hold global/field writes too
    for f in ctx.repo.all_functions():
        if f in pub:
            continue
        S = E.sum[f.fq]
        for key, sites in S.writes.items():
            if key.startswith('<global'):
                for node, reason, _ in sites[:3]:
                    ctx.ob('PUR-GLOBAL', False, None, 'no write to %s' % key, f=f, node=node,
                           why='%s writes into shared constant %s: %s' % (f.qualname, key, reason))
            elif key.startswith('<field'):
                for node, reason, _ in sites[:3]:
                    ctx.ob('PUR-FIELD', False, None, 'no write to %s' % key, f=f, node=node,
                           why='%s writes into %s (%s)' % (f.qualname, key, reason))
    ctx.ob('PUR-GLOBAL', True, None, 'write sinks examined: %d in %d functions'
           % (sum(sum(len(v) for v in s.writes.values()) + len(s.self_writes)
                  for s in E.sum.values()), len(E.sum)), key='summary-global')
    ctx.ob('PUR-FIELD', True, None, 'fields holding constructor arguments: %s'
           % sorted({'%s.%s' % (k.split('.')[-2], a) for k, s in E.sum.items()
                     for a, b in s.fields.items()
                     if any(isinstance(o, tuple) and o[0] in ('P', 'V') for o in b)})[:12],
           key='summary-field')
    infos = 0
    for k, s in sorted(E.sum.items()):
        for node, msg in s.infos:
            infos += 1
            ctx.info('PUR-ARG', '%s:%s %s' % (s.f.file, getattr(node, 'lineno', 0), msg))
    unknown = sorted({c for s in E.sum.values() for c in s.unknown_calls})
    ctx.extra['assumed_read_only_calls'] = unknown
    ctx.extra['parameters_examined'] = n_params
    # positive fixture: the engine must see a mutation in a 4-line sample
    _fixture(ctx)


def pur_global(ctx, modules, floor=5):
    """PUR-GLOBAL restricted to some modules: a function that writes into a module- or
    class-level array leaks state from one call into the next (the value returned for one
    input then depends on the calls made before)."""
    ctx.rule('PUR-GLOBAL', 'no write to module/class constants (results do not depend on '
             'earlier calls)')
    E = _effects(ctx)
    n = 0
    for f in ctx.repo.all_functions():
        if f.module.name.split('.')[-1] not in modules:
            continue
        S = E.sum[f.fq]
        n += 1
        bad = False
        for key, sites in S.writes.items():
            if key.startswith('<global'):
                bad = True
                for node, reason, _ in sites[:3]:
                    ctx.ob('PUR-GLOBAL', False, None, 'no write to %s' % key, f=f, node=node,
                           why='%s writes into shared constant %s: %s (later calls see the '
                               'stale values)' % (f.qualname, key, reason))
        if not bad:
            ctx.ob('PUR-GLOBAL', True, None, '%s writes no module/class-level array'
                   % f.qualname, f=f, key='global-' + f.qualname)
    ctx.floor('PUR-GLOBAL', n, floor, 'functions examined')
    if not ctx.cache.get('pur-fixture-done'):
        ctx.cache['pur-fixture-done'] = True
        _fixture(ctx)


def _fixture(ctx):
    """Zero-expected-count rules carry a positive example that must match on every run."""
    import os
    import tempfile
    import shutil
    from ..model import Repo, TypeEnv
    d = tempfile.mkdtemp(prefix='pyins_sa_fix_')
    try:
        os.makedirs(os.path.join(d, 'pyins'))
        with open(os.path.join(d, 'pyins', '__init__.py'), 'w') as fh:
            fh.write('from . import a, b, c, d, e, f, g, h\n')
        src = ('import numpy as np\n'
               'CONST = [1, 2]\n'
               'def f1(x):\n    y = np.asarray(x)\n    y[0] = 1\n    return y\n'
               'def f2(df):\n    v = df.values\n    v += 1\n'
               'def f3(df):\n    r = df[["a"]]\n    r += 1\n    return r\n'
               'def f4(x):\n    x = np.asarray(x).copy()\n    x[0] = 2\n    return x\n'
               'def f5():\n    CONST.append(3)\n')
        for m in 'abcdefgh':
            with open(os.path.join(d, 'pyins', m + '.py'), 'w') as fh:
                fh.write(src if m == 'a' else '')
        r = Repo(d)
        E = Effects(r, TypeEnv(r))
        got = {k.split('.')[-1]: sorted(s.writes) for k, s in E.sum.items()}
        ok = got.get('f1') == ['x'] and got.get('f2') == ['df'] and got.get('f3') == [] and \
            got.get('f4') == [] and any('global' in k for k in got.get('f5', []))
        if not ok:
            raise AnalysisError('effect-analysis fixture not recognised: %s' % got)
        ctx.ob('PUR-ARG', True, None, 'positive fixture: view write, .values write, global '
               'append detected; copy / CoW selection silent', key='fixture')
    finally:
        shutil.rmtree(d, ignore_errors=True)


# --------------------------------------------------------------------- RNG-SRC
DRAWS = {'randn', 'rand', 'normal', 'uniform', 'randint', 'standard_normal', 'random_sample',
         'choice', 'shuffle', 'permutation', 'random', 'multivariate_normal', 'exponential',
         'poisson', 'bytes'}
FORBIDDEN = ('numpy.random.', 'random.', 'time.', 'os.urandom', 'uuid.', 'secrets.',
             'datetime.')


def rng_src(ctx):
    ctx.rule('RNG-SRC', 'every random draw is a method of an object obtained from '
             'check_random_state(<parameter>) (or a field set from it); no global random '
             'state, clock, id() or hash()')
    n = 0
    for f in ctx.repo.all_functions():
        loc = f.local_names()
        for node in ast.walk(f.node):
            if not isinstance(node, ast.Call):
                continue
            q = f.module.resolve(node.func, loc)
            if q and (q.startswith(FORBIDDEN) or q in ('builtins.id', 'builtins.hash')) and \
                    not q.endswith('check_random_state'):
                if q.startswith('numpy.random.RandomState'):
                    ok = bool(node.args or node.keywords)
                    ctx.ob('RNG-SRC', ok, None, 'RandomState constructed from an explicit seed',
                           f=f, node=node, why='RandomState() without a seed argument')
                    continue
                ctx.ob('RNG-SRC', False, None, 'no hidden source of non-determinism', f=f,
                       node=node, why='%s uses %s: results depend on hidden global state, not '
                                      'only on the arguments / the supplied seed'
                                      % (f.qualname, q))
                continue
            if isinstance(node.func, ast.Attribute) and node.func.attr in DRAWS and q is None:
                recv = node.func.value
                n += 1
                ok, src = _rng_origin(ctx, f, recv)
                ctx.ob('RNG-SRC', ok, None, 'draw %s comes from %s' % (norm_text(node.func), src),
                       f=f, node=node,
                       why='random draw `%s` does not come from check_random_state(<parameter>): '
                           '%s' % (norm_text(node.func), src))
    ctx.floor('RNG-SRC', n, 6, 'random draws')


def _rng_origin(ctx, f, recv, depth=0):
    loc = f.local_names()
    if isinstance(recv, ast.Name):
        defs = [st for st in ast.walk(f.node) if isinstance(st, ast.Assign) and
                any(isinstance(t, ast.Name) and t.id == recv.id for t in st.targets)]
        if not defs:
            if recv.id in f.params:
                txt = f.doc_kinds()['params'].get(recv.id, '')
                return ('RandomState' in txt, 'parameter %s (%s)' % (recv.id, txt[:40]))
            return (False, 'unbound name %s' % recv.id)
        ok_all, srcs = True, []
        for st in defs:
            v = st.value
            if isinstance(v, ast.Call) and (f.module.resolve(v.func, loc) or '').endswith(
                    'check_random_state') and len(v.args) == 1 and \
                    isinstance(v.args[0], ast.Name) and v.args[0].id in f.params + [recv.id]:
                srcs.append('check_random_state(%s)' % v.args[0].id)
            else:
                ok_all = False
                srcs.append(norm_text(v)[:50])
        return (ok_all, ', '.join(srcs))
    if isinstance(recv, ast.Attribute) and isinstance(recv.value, ast.Name) and f.cls and \
            recv.value.id == f.params[0]:
        init = f.cls.methods.get('__init__')
        if init is not None:
            for st in ast.walk(init.node):
                if isinstance(st, ast.Assign) and norm_text(st.targets[0]) == \
                        '%s.%s' % (init.params[0], recv.attr):
                    v = st.value
                    ok = isinstance(v, ast.Call) and (init.module.resolve(
                        v.func, init.local_names()) or '').endswith('check_random_state') \
                        and len(v.args) == 1 and isinstance(v.args[0], ast.Name) and \
                        v.args[0].id in init.params
                    return (ok, 'field %s = %s' % (recv.attr, norm_text(v)[:50]))
        return (False, 'field %s not set from check_random_state' % recv.attr)
    return (False, norm_text(recv))


# -------------------------------------------------------------------- RNG-SEED
GLOBAL_STREAMS = ('numpy.random.mtrand._rand', 'numpy.random._rand', 'numpy.random')
LIB_NORMALISERS = ('scipy._lib._util.check_random_state', 'sklearn.utils.check_random_state',
                   'sklearn.utils.validation.check_random_state')


def _truth_tests(fnode, names):
    """(node, name) for every place where a bare name from `names` is used as a truth value:
    `if x`, `if not x`, `x or y`, `x and y`, `a if x else b`, `while x`, `bool(x)`."""
    out = []

    def bare(e):
        return isinstance(e, ast.Name) and e.id in names

    def scan_test(t):
        if bare(t):
            out.append((t, t.id))
        elif isinstance(t, ast.UnaryOp) and isinstance(t.op, ast.Not):
            scan_test(t.operand)
        elif isinstance(t, ast.BoolOp):
            for v in t.values:
                scan_test(v)
    for n in ast.walk(fnode):
        if isinstance(n, (ast.If, ast.While, ast.IfExp)):
            scan_test(n.test)
        elif isinstance(n, ast.Assert):
            scan_test(n.test)
        elif isinstance(n, ast.BoolOp):
            for v in n.values[:-1]:     # `x or default`: x is tested; the last operand is not
                if bare(v):
                    out.append((v, v.id))
        elif isinstance(n, ast.UnaryOp) and isinstance(n.op, ast.Not) and bare(n.operand):
            out.append((n.operand, n.operand.id))
        elif isinstance(n, ast.Call) and isinstance(n.func, ast.Name) and n.func.id == 'bool' \
                and len(n.args) == 1 and bare(n.args[0]):
            out.append((n.args[0], n.args[0].id))
    seen, uniq = set(), []
    for node, nm in out:
        if id(node) not in seen:
            seen.add(id(node))
            uniq.append((node, nm))
    return uniq


def _is_none_test(t, p, resolve):
    """`p is None`, possibly or-ed with `p is np.random` (the library helper's own spelling)."""
    if isinstance(t, ast.BoolOp) and isinstance(t.op, ast.Or):
        return all(_is_none_test(v, p, resolve) for v in t.values) and \
            any(_is_none_only(v, p) for v in t.values)
    if _is_none_only(t, p):
        return True
    if isinstance(t, ast.Compare) and len(t.ops) == 1 and isinstance(t.ops[0], ast.Is) and \
            isinstance(t.left, ast.Name) and t.left.id == p and \
            resolve(t.comparators[0]) in GLOBAL_STREAMS:
        return True
    return False


def _is_none_only(t, p):
    return isinstance(t, ast.Compare) and len(t.ops) == 1 and isinstance(t.ops[0], ast.Is) and \
        isinstance(t.left, ast.Name) and t.left.id == p and \
        isinstance(t.comparators[0], ast.Constant) and t.comparators[0].value is None


def _seed_findings(f, seed_params, is_normaliser):
    """findings of RNG-SEED in one function: [(node, key, why)]"""
    out = []
    loc = f.local_names()
    resolve = lambda e: f.module.resolve(e, loc) if isinstance(e, (ast.Name, ast.Attribute)) \
        else None
    for node, nm in _truth_tests(f.node, set(seed_params)):
        out.append((node, 'truth-' + nm,
                    '`%s` carries a seed / generator and is tested by its truth value: the integer '
                    'seed 0 (and numpy.int64(0)) is falsy and is treated like None, so it selects '
                    'the global random stream and two calls with seed 0 differ' % nm))
    if is_normaliser:
        pm = {}
        for par_ in ast.walk(f.node):
            for ch_ in ast.iter_child_nodes(par_):
                pm[ch_] = par_
        p = seed_params[0]
        for r in ast.walk(f.node):
            if not (isinstance(r, ast.Return) and r.value is not None and
                    resolve(r.value) in GLOBAL_STREAMS + ('numpy.random.mtrand._rand',)):
                continue
            # the guards this return runs under
            guards, cur = [], r
            while cur in pm:
                par = pm[cur]
                if isinstance(par, ast.If):
                    guards.append((par, cur in par.body))
                cur = par
            ok = any(pos and _is_none_test(g.test, p, resolve) for g, pos in guards)
            if not ok:
                out.append((r, 'global-stream',
                            'the global random stream is returned on a path that is not guarded '
                            'by `%s is None`: a supplied seed does not determine the draws' % p))
    return out


def rng_seed(ctx):
    ctx.rule('RNG-SEED', 'a seed / generator parameter is never tested by its truth value (0 is a '
             'valid seed) and the seed normaliser is the library helper, or a repository function '
             'that hands out the global stream only under `seed is None`')
    from ..model import FunctionInfo
    repo = ctx.repo
    n = 0
    normalisers = {}
    # which callable normalises seeds at each use
    for f in repo.all_functions():
        loc = f.local_names()
        for node in ast.walk(f.node):
            if isinstance(node, ast.Call):
                q = f.module.resolve(node.func, loc) or ''
                if q.endswith('check_random_state'):
                    n += 1
                    if q in LIB_NORMALISERS:
                        ctx.ob('RNG-SEED', True, None, '%s: seed normalised by %s' % (f.qualname, q),
                               f=f, node=node, key='norm-' + f.qualname)
                        continue
                    tgt = repo.lookup(q) if q.startswith('pyins') else None
                    ctx.need(isinstance(tgt, FunctionInfo), 'seed normaliser %s is neither the '
                             'library helper nor a repository function' % q)
                    normalisers[tgt.fq] = tgt
    ctx.floor('RNG-SEED', n, 6, 'seed normalisation sites')
    for f in repo.all_functions():
        seeds = _gen_params(f)
        is_norm = f.fq in normalisers
        if is_norm:
            ps = [p_ for p_ in f.params if p_ not in ('self', 'cls')]
            ctx.need(len(ps) == 1, 'repository seed normaliser %s: one parameter expected' % f.fq)
            seeds = ps
            ctx.touch(f)
        # a parameter handed to RandomState(...) directly is a seed as well
        loc = f.local_names()
        for node in ast.walk(f.node):
            if isinstance(node, ast.Call) and (f.module.resolve(node.func, loc) or '') in (
                    'numpy.random.RandomState', 'numpy.random.default_rng',
                    'numpy.random.mtrand.RandomState') and node.args and \
                    isinstance(node.args[0], ast.Name) and node.args[0].id in f.params and \
                    node.args[0].id not in seeds:
                seeds = seeds + [node.args[0].id]
        if not seeds:
            continue
        fs = _seed_findings(f, seeds, is_norm)
        if not fs:
            ctx.ob('RNG-SEED', True, None, '%s: seed parameter(s) %s never tested by truth value%s'
                   % (f.qualname, ', '.join(seeds),
                      '; global stream only under `is None`' if is_norm else ''), f=f,
                   key='seed-' + f.qualname)
        for node, key, why in fs:
            ctx.ob('RNG-SEED', False, None, '%s: %s' % (f.qualname, key), f=f, node=node,
                   key=key + '-' + f.qualname, why=why)
    # positive fixture (the expected count of findings is zero)
    if not ctx.cache.get('rng-seed-fixture'):
        ctx.cache['rng-seed-fixture'] = True
        src = ('import numpy as np\n'
               'def bad(seed):\n    if not seed:\n        return np.random.mtrand._rand\n'
               '    return np.random.RandomState(seed)\n'
               'def good(seed):\n    if seed is None or seed is np.random:\n'
               '        return np.random.mtrand._rand\n    return np.random.RandomState(seed)\n'
               'def leak(seed):\n    if isinstance(seed, int):\n        return np.random.RandomState(seed)\n'
               '    return np.random.mtrand._rand\n')
        tree = ast.parse(src)

        class _M:
            @staticmethod
            def resolve(e, loc):
                t = norm_text(e)
                return t.replace('np.', 'numpy.', 1) if t.startswith('np.') else None

        class _F:
            def __init__(self, node):
                self.node, self.module, self.params = node, _M, [a.arg for a in node.args.args]

            def local_names(self):
                return set(self.params)
        got = {fn.name: sorted(k for _, k, _ in _seed_findings(_F(fn), ['seed'], True))
               for fn in tree.body if isinstance(fn, ast.FunctionDef)}
        if got != {'bad': ['global-stream', 'truth-seed'], 'good': [], 'leak': ['global-stream']}:
            raise AnalysisError('RNG-SEED fixture not recognised: %s' % got)
        ctx.ob('RNG-SEED', True, None, 'positive fixture: truth-value test and unguarded global '
               'stream detected; the library helper\'s own shape is silent', key='fixture')


# --------------------------------------------------------------------- RNG-FWD
def _gen_params(f):
    """parameters of a callable that seed its randomness: passed to check_random_state"""
    out = []
    loc = f.local_names()
    for n in ast.walk(f.node):
        if isinstance(n, ast.Call) and (f.module.resolve(n.func, loc) or '').endswith(
                'check_random_state') and len(n.args) == 1 and \
                isinstance(n.args[0], ast.Name) and n.args[0].id in f.params + f.kwonly:
            if n.args[0].id not in out:
                out.append(n.args[0].id)
    return out


def rng_fwd(ctx):
    ctx.rule('RNG-FWD', 'a callable that takes a seed/generator forwards it to every callee that '
             'takes one (otherwise the callee falls back to the global random stream and equal '
             'seeds no longer give equal results)')
    from ..model import FunctionInfo, ClassInfo
    repo = ctx.repo
    gen = {}
    for f in repo.all_functions():
        g = _gen_params(f)
        if g:
            gen[f.fq] = (f, g)
    n = 0
    for fq, (f, gparams) in sorted(gen.items()):
        loc = f.local_names()
        # names that carry the caller's generator
        carriers = set(gparams)
        for st in ast.walk(f.node):
            if isinstance(st, ast.Assign) and isinstance(st.value, ast.Call) and \
                    (f.module.resolve(st.value.func, loc) or '').endswith('check_random_state') \
                    and st.value.args and isinstance(st.value.args[0], ast.Name) and \
                    st.value.args[0].id in carriers:
                for t in st.targets:
                    if isinstance(t, ast.Name):
                        carriers.add(t.id)
        for node in ast.walk(f.node):
            if not isinstance(node, ast.Call):
                continue
            callee = None
            q = f.module.resolve(node.func, loc)
            tgt = repo.lookup(q) if q and q.startswith('pyins') else None
            if isinstance(tgt, FunctionInfo):
                callee = tgt
            elif isinstance(tgt, ClassInfo):
                callee = tgt.methods.get('__init__')
            elif isinstance(node.func, ast.Name) and f.cls is not None and f.params and \
                    node.func.id == f.params[0] and f.is_classmethod:
                callee = f.cls.methods.get('__init__')
            if callee is None or callee.fq not in gen or callee is f:
                continue
            cparams = list(callee.params)
            if callee.cls is not None and not callee.is_static:
                cparams = cparams[1:]
            for g in gen[callee.fq][1]:
                n += 1
                arg = None
                for kw in node.keywords:
                    if kw.arg == g:
                        arg = kw.value
                if arg is None and g in cparams and cparams.index(g) < len(node.args):
                    arg = node.args[cparams.index(g)]
                star = any(isinstance(a, ast.Starred) for a in node.args) or \
                    any(kw.arg is None for kw in node.keywords)
                if arg is None and star:
                    ctx.ob('RNG-FWD', None, None, 'call with *args/**kwargs', f=f, node=node)
                    continue
                ok = isinstance(arg, ast.Name) and arg.id in carriers
                ctx.ob('RNG-FWD', ok, None, '%s forwards its generator to %s(%s=...)'
                       % (f.qualname, callee.qualname, g), f=f, node=node,
                       key='fwd-%s-%s' % (callee.qualname, g),
                       why='%s takes a seed/generator (%s) but calls %s %s: the callee draws '
                           'from check_random_state(None), the global stream, so equal seeds give '
                           'different results' % (
                               f.qualname, ', '.join(gparams), callee.qualname,
                               ('without its `%s` argument' % g) if arg is None
                               else 'with `%s=%s`, which is not the caller\'s generator'
                               % (g, norm_text(arg))))
    ctx.floor('RNG-FWD', n, 1, 'generator hand-over sites')


# --------------------------------------------------------------------- SCH-RET
def _doc_return_kinds(f):
    out = []
    for name, txt in f.doc_kinds()['returns']:
        kind = None
        for k in ('TrajectoryError', 'PvaError', 'Trajectory', 'Pva', 'Increments', 'Imu'):
            if txt.strip().startswith(k) or (name is None and txt.strip().startswith(k)):
                kind = k
                break
        out.append((name, kind, txt))
    return out


def sch_rules(ctx):
    ctx.rule('SCH-RET', 'returned tables of documented kind carry exactly the columns of that '
             'kind')
    ctx.rule('SCH-USE', 'constant column keys read from a documented Trajectory / Pva / '
             'Increments / Imu / TrajectoryError argument belong to that kind')
    repo = ctx.repo
    kcols = {k: repo.const(v) for k, v in KINDS.items()}
    kcols['Increments'] = ['dt'] + repo.const('util.THETA_COLS') + repo.const('util.DV_COLS')
    kcols['Imu'] = repo.const('util.GYRO_COLS') + repo.const('util.ACCEL_COLS')
    n_ret = 0
    for f in repo.all_functions():
        kinds = _doc_return_kinds(f)
        if not any(k for _, k, _ in kinds):
            continue
        rets = [n for n in ast.walk(f.node) if isinstance(n, ast.Return) and n.value is not None]
        for r in rets:
            elts = r.value.elts if isinstance(r.value, ast.Tuple) else [r.value]
            if len(elts) != len(kinds):
                continue
            for e, (name, kind, txt) in zip(elts, kinds):
                if kind is None:
                    continue
                ctor = _find_ctor(f, e)
                if ctor is None:
                    ctx.ob('SCH-RET', None, None, '%s returns %s (constructor not local)'
                           % (f.qualname, kind), f=f, node=r)
                    continue
                cols = None
                for kw in ctor.keywords:
                    if kw.arg == ('columns' if 'DataFrame' in norm_text(ctor.func) else 'index'):
                        try:
                            cols = repo.fold(kw.value, f.module, f.cls)
                        except ValueError:
                            cols = 'unfoldable'
                if cols == 'unfoldable' or cols is None:
                    # index=pva.index style: preserved from an input of the same kind
                    ctx.ob('SCH-RET', None, None, '%s returns %s (labels taken from an input)'
                           % (f.qualname, kind), f=f, node=ctor)
                    continue
                n_ret += 1
                ctx.ob('SCH-RET', list(cols) == list(kcols[kind]), None,
                       '%s: returned %s has the documented columns' % (f.qualname, kind), f=f,
                       node=ctor, key='ret-%s-%s' % (f.qualname, kind),
                       why='%s is documented to return %s but builds columns %s (documented: %s)'
                           % (f.qualname, kind, list(cols), kcols[kind]))
    ctx.floor('SCH-RET', n_ret, 5, 'documented-kind constructors')
    # SCH-USE
    n_use = 0
    pandas_api = {'index', 'columns', 'values', 'iloc', 'loc', 'copy', 'name', 'shape', 'to_frame',
                  'transpose', 'T', 'abs', 'max', 'min', 'mean', 'sum', 'to_numpy', 'at', 'iat',
                  'rename', 'drop', 'diff', 'empty', 'size', 'dtype', 'dtypes', 'items', 'keys'}
    extra = {'Pva': repo.const('util.RATE_COLS'), 'Trajectory': repo.const('util.RATE_COLS')}
    for f in repo.all_functions():
        docs = f.doc_kinds()['params']
        for p in f.params:
            txt = docs.get(p, '')
            kind = None
            for k in ('TrajectoryError', 'PvaError', 'Trajectory', 'Pva', 'Increments', 'Imu'):
                if txt.startswith(k):
                    kind = k
                    break
            if kind is None:
                continue
            allowed = set(kcols[kind]) | set(extra.get(kind, []))
            rebound = any(isinstance(n, ast.Name) and n.id == p and isinstance(n.ctx, ast.Store)
                          for n in ast.walk(f.node))
            for n in ast.walk(f.node):
                keys = None
                if isinstance(n, ast.Subscript) and isinstance(n.value, ast.Name) and \
                        n.value.id == p and isinstance(n.ctx, ast.Load):
                    try:
                        v = repo.fold(n.slice, f.module, f.cls)
                    except ValueError:
                        continue
                    if isinstance(v, str):
                        keys = [v]
                    elif isinstance(v, list) and all(isinstance(x, str) for x in v):
                        keys = v
                elif isinstance(n, ast.Attribute) and isinstance(n.value, ast.Name) and \
                        n.value.id == p and n.attr not in pandas_api and \
                        isinstance(n.ctx, ast.Load):
                    keys = [n.attr]
                if keys is None or rebound:
                    continue
                n_use += 1
                bad = [k for k in keys if k not in allowed]
                ctx.ob('SCH-USE', not bad, None, '%s: keys %s of %s %s' % (f.qualname, keys, kind, p),
                       f=f, node=n,
                       why="%s reads %s from '%s', documented as %s, which has no such column"
                           % (f.qualname, bad, p, kind))
    ctx.floor('SCH-USE', n_use, 30, 'constant column reads')


def _find_ctor(f, e):
    """DataFrame/Series constructor call that produces expression e (local, one hop)."""
    def is_ctor(n):
        return isinstance(n, ast.Call) and f.module.resolve(n.func, f.local_names()) in (
            'pandas.DataFrame', 'pandas.Series')
    if is_ctor(e):
        return e
    if isinstance(e, ast.Name):
        defs = [st for st in ast.walk(f.node) if isinstance(st, ast.Assign) and
                any(isinstance(t, ast.Name) and t.id == e.id for t in st.targets)]
        if len(defs) == 1 and is_ctor(defs[0].value):
            return defs[0].value
    return None


def pur_arg(ctx, modules):
    """PUR-ARG restricted to the public callables of the given modules (for properties that state
    'the inputs are not modified' about one module; the whole-package form is pur_rules)."""
    ctx.rule('PUR-ARG', 'no public callable of %s writes into an argument (directly, via a view, '
             'via a callee or via an overwrite/out flag)' % '/'.join(modules))
    E = _effects(ctx)
    pub = [f for f in ctx.repo.public_surface() if f.module.name.split('.')[-1] in modules]
    ctx.floor('PUR-ARG', len(pub), 1, 'public callables of %s' % '/'.join(modules))
    for f in pub:
        S = E.sum[f.fq]
        params = [p for p in f.params + f.kwonly]
        if f.cls is not None and not f.is_static:
            params = params[1:]
        for p in params:
            real = [(node, reason) for node, reason, state in S.writes.get(p, [])
                    if not (state and (f.name, p) in STATE_WHITELIST)]
            if not real:
                ctx.ob('PUR-ARG', True, None, 'argument %s of %s is never written' % (p, f.qualname),
                       f=f, key='arg-%s-%s' % (f.qualname, p))
            for node, reason in real[:3]:
                ctx.ob('PUR-ARG', False, None, 'argument %s of %s is never written'
                       % (p, f.qualname), f=f, node=node,
                       key='arg-%s-%s:%s' % (f.qualname, p, norm_text(node)),
                       why="public %s modifies its argument '%s': %s" % (f.qualname, p, reason))
    _fixture(ctx)
