"""C09 / C10 (and parts of C12) - scheduling rules on the two filter loops.

DEF-PATH          the all-defaults path reaches no operation that definitely raises
SCHED-EPOCHS      epoch list: all measurement indices -> unique -> clip [start, end] ->
                  +inf sentinel appended last
SCHED-MCURSOR     epoch cursor starts at 0, advances by exactly one only under the strict
                  test T[m] < s on the current element
SCHED-NO-OVERTAKE all due epochs are drained before the sample cursor may be forced past
                  the first pending sample (ordering fact T[m] >= s at that point)
SCHED-PROGRESS    the sample cursor fed by searchsorted passes a progress guard before it is
                  committed (termination)
SCHED-SIBLING     the two loops agree on guards and prelude stages
SCHED-HANDOVER    every sample is handed over exactly once: slice [c:n], then c = n, c0 = 0
SCHED-PAIR        one compute_matrices per measurement object and epoch, each available
                  result reaches exactly one correct / innovation / stamp; result lists are
                  appended exactly once per iteration
SCHED-STAMP       (feedback) the innovation is stamped with its own epoch T[m]
STEP-BOUND        (feedforward) the committed row is the last one not later than
                  min(time + step, T[m]) or the next row
"""
import ast
import re

from ..flow import (canon_text, path_to, reaching, Closure, assigned_names, blocks_of,
                    walk_no_nested_funcs)
from ..model import AnalysisError, norm_text

FB = 'filters.run_feedback_filter'
FF = 'filters.run_feedforward_filter'


class LoopModel:
    def __init__(self, ctx, fq):
        self.ctx = ctx
        self.f = f = ctx.repo.function(fq)
        self.kind = 'feedback' if fq == FB else 'feedforward'
        ctx.single_exit(f)
        body = f.node.body
        loops = [s for s in body if isinstance(s, ast.While)]
        ctx.need(len(loops) == 1, '%s: expected exactly one top-level while loop, found %d'
                 % (fq, len(loops)))
        self.loop = loops[0]
        self.pre = body[:body.index(self.loop)]
        self.post = body[body.index(self.loop) + 1:]
        self.clo = None
        mod = f.module
        self.res = lambda n: mod.resolve(n, f.local_names())
        # --- epoch array T
        self.T = None
        self.T_assigns = []
        for st in self.pre:
            if isinstance(st, ast.Assign) and len(st.targets) == 1 and \
                    isinstance(st.targets[0], ast.Name):
                merges = [x for x in ast.walk(st.value) if isinstance(x, ast.Call) and
                          self.res(x.func) in ('numpy.hstack', 'numpy.concatenate') and
                          '.data.index' in norm_text(x)]
                if merges:
                    self.T = st.targets[0].id
                    break
        ctx.need(self.T is not None, '%s: epoch list (hstack of measurement indices) not '
                 'found' % fq)
        for st in self.pre:
            if self.T in assigned_names(st):
                self.T_assigns.append(st)
        self.clo = Closure(f, stop={self.T})
        self.clo_pre = Closure(f)
        # --- epoch cursor m
        ms = set()
        self.T_subs = []
        for n in ast.walk(self.loop):
            if isinstance(n, ast.Subscript) and isinstance(n.value, ast.Name) and \
                    n.value.id == self.T:
                self.T_subs.append(n)
                if isinstance(n.slice, ast.Name):
                    ms.add(n.slice.id)
        ctx.need(len(ms) == 1, '%s: epoch cursor not identified (indices used on %s: %s)'
                 % (fq, self.T, sorted(norm_text(x.slice) for x in self.T_subs)))
        self.m = next(iter(ms))
        # --- guard: top-level If/While of the loop body testing T[m] < s
        self.guards = []
        for st in self.loop.body:
            if isinstance(st, (ast.If, ast.While)) and isinstance(st.test, ast.Compare) \
                    and len(st.test.ops) == 1:
                lt = self.clo.text(st.test.left, st)
                if lt == '%s[%s]' % (self.T, self.m):
                    self.guards.append(st)
        # --- sample cursor c and candidate n: `c = n` at the top level of the loop body
        # where n is defined (in the loop body) through searchsorted
        self.c = self.n = None
        self.table = None
        self.batch_slice = None
        for st in self.loop.body:
            if isinstance(st, ast.Assign) and len(st.targets) == 1 and \
                    isinstance(st.targets[0], ast.Name):
                names = [x.id for x in ast.walk(st.value) if isinstance(x, ast.Name)]
                if len(names) != 1 or names[0] == st.targets[0].id or \
                        any(isinstance(x, ast.Call) for x in ast.walk(st.value)):
                    continue
                cand_n = names[0]
                for s2 in self.loop.body:
                    if isinstance(s2, ast.Assign) and len(s2.targets) == 1 and \
                            isinstance(s2.targets[0], ast.Name) and \
                            s2.targets[0].id == cand_n and 'searchsorted' in norm_text(s2.value):
                        self.c, self.n = st.targets[0].id, cand_n
        if self.kind == 'feedback':
            for n in ast.walk(self.loop):
                if isinstance(n, ast.Subscript) and isinstance(n.slice, ast.Slice) and \
                        isinstance(n.value, ast.Attribute) and n.value.attr == 'iloc':
                    self.table = norm_text(n.value.value)
                    self.batch_slice = n
            ctx.need(self.table is not None, '%s: batch slice of the increments table not '
                     'found' % fq)
        ctx.need(self.c is not None, '%s: sample cursor not identified' % fq)
        self.clo = Closure(f, stop={self.T, self.c, self.n, self.m})

    def init_value(self, name):
        v = None
        for st in self.pre:
            if isinstance(st, ast.Assign) and len(st.targets) == 1 and \
                    isinstance(st.targets[0], ast.Name) and st.targets[0].id == name:
                v = st.value
        return v

    def writes(self, name, root=None):
        out = []
        for st in ast.walk(root or self.loop):
            if isinstance(st, (ast.Assign, ast.AugAssign, ast.AnnAssign, ast.For)):
                tg = st.targets if isinstance(st, ast.Assign) else [st.target]
                for t in tg:
                    for n in ast.walk(t):
                        if isinstance(n, ast.Name) and n.id == name and \
                                isinstance(n.ctx, ast.Store):
                            out.append(st)
        return out


def _models(ctx, which):
    out = []
    for fq in which:
        key = ('loopmodel', fq)
        if key not in ctx.cache:
            ctx.cache[key] = LoopModel(ctx, fq)
        out.append(ctx.cache[key])
    return out


# ------------------------------------------------------------------- DEF-PATH
def def_path(ctx, which=(FB, FF)):
    ctx.rule('DEF-PATH', 'along the path where every defaulted parameter keeps its default, '
             'no operation that definitely raises is reached')
    for fq in which:
        f = ctx.repo.function(fq)
        body = f.node.body
        state = {}     # name -> 'none' | 'empty' | 'other'
        for p, d in f.defaults.items():
            if isinstance(d, ast.Constant) and d.value is None:
                state[p] = 'none'
            elif isinstance(d, (ast.List, ast.Tuple)) and not d.elts:
                state[p] = 'empty'
        n_sites = 0
        for st in body:
            if isinstance(st, ast.While):
                break
            # `if p is not None: p = <default>`: the default replaces what the caller supplied
            # (survey: `if not measurements is None`) - all measurements are dropped in silence
            if isinstance(st, ast.If) and isinstance(st.test, ast.Compare) and \
                    isinstance(st.test.left, ast.Name) and len(st.test.ops) == 1 and \
                    isinstance(st.test.ops[0], ast.IsNot) and \
                    isinstance(st.test.comparators[0], ast.Constant) and \
                    st.test.comparators[0].value is None and \
                    state.get(st.test.left.id) == 'none' and not st.orelse:
                p = st.test.left.id
                for s2 in st.body:
                    if isinstance(s2, ast.Assign) and len(s2.targets) == 1 and \
                            isinstance(s2.targets[0], ast.Name) and s2.targets[0].id == p and \
                            isinstance(s2.value, (ast.List, ast.Tuple, ast.Dict, ast.Constant)):
                        n_sites += 1
                        ctx.ob('DEF-PATH', False, None, 'the default is installed when the '
                               'argument is absent', f=f, node=st, key='polarity-' + p,
                               why='`%s` installs the default `%s` when a value WAS supplied: what '
                                   'the caller passed is dropped, and None is used as it is'
                                   % (norm_text(st.test), norm_text(s2.value)))
                continue
            # `if p is None: p = <expr>`
            if isinstance(st, ast.If) and isinstance(st.test, ast.Compare) and \
                    isinstance(st.test.left, ast.Name) and len(st.test.ops) == 1 and \
                    isinstance(st.test.ops[0], ast.Is) and \
                    isinstance(st.test.comparators[0], ast.Constant) and \
                    st.test.comparators[0].value is None:
                p = st.test.left.id
                if state.get(p) == 'none':
                    for s2 in st.body:
                        if isinstance(s2, ast.Assign) and len(s2.targets) == 1 and \
                                isinstance(s2.targets[0], ast.Name) and s2.targets[0].id == p:
                            v = s2.value
                            if isinstance(v, (ast.List, ast.Tuple)) and not v.elts:
                                state[p] = 'empty'
                            else:
                                state[p] = 'other'
                continue
            for n in walk_no_nested_funcs(st):
                if isinstance(n, ast.Call):
                    q = f.module.resolve(n.func, f.local_names())
                    if q in ('numpy.hstack', 'numpy.concatenate', 'numpy.vstack',
                             'numpy.stack', 'builtins.max', 'builtins.min') and n.args:
                        a = n.args[0]
                        n_sites += 1
                        empty = _definitely_empty(a, state)
                        ctx.ob('DEF-PATH', not empty, None,
                               '%s of a sequence that is non-empty on the all-defaults path'
                               % q.split('.')[-1], f=f, node=n,
                               why='with the documented defaults %s receives an empty '
                                   'sequence and raises (the function cannot run with its '
                                   'own default arguments)' % q)
                    # attribute / subscript on a name that is definitely None
                for sub in (n,):
                    if isinstance(sub, (ast.Attribute, ast.Subscript)) and \
                            isinstance(sub.value, ast.Name) and \
                            isinstance(sub.ctx, ast.Load) and \
                            state.get(sub.value.id) == 'none' and \
                            not _under_none_guard(body, st, sub.value.id):
                        ctx.ob('DEF-PATH', False, None, 'use of a None default', f=f, node=sub,
                               why='parameter %s is None on the all-defaults path here'
                                   % sub.value.id)
            for nm in assigned_names(st):
                if nm in state and not isinstance(st, ast.If):
                    state[nm] = 'other'
        ctx.floor('DEF-PATH', n_sites, 1, 'sequence-consuming call sites in %s' % fq)


def _definitely_empty(a, state):
    if isinstance(a, (ast.ListComp, ast.GeneratorExp)):
        it = a.generators[0].iter
        return isinstance(it, ast.Name) and state.get(it.id) == 'empty'
    if isinstance(a, (ast.List, ast.Tuple)):
        return not a.elts
    if isinstance(a, ast.Name):
        return state.get(a.id) == 'empty'
    if isinstance(a, ast.BinOp) and isinstance(a.op, ast.Add):
        return _definitely_empty(a.left, state) and _definitely_empty(a.right, state)
    return False


def _under_none_guard(body, st, name):
    return isinstance(st, ast.If) and name in norm_text(st.test)


def _epoch_stages(M):
    T = M.T
    stages = {}
    for i, st in enumerate(M.T_assigns):
        txt = norm_text(st)
        for n in ast.walk(st):
            if isinstance(n, ast.Call):
                q = M.res(n.func)
                if q in ('numpy.hstack', 'numpy.concatenate'):
                    stages.setdefault('merge', (i, st, n))
                if q in ('numpy.unique', 'builtins.set', 'builtins.frozenset', 'pandas.unique',
                         'numpy.union1d') and n.args:
                    # de-duplication counts only when it is applied to the merged list,
                    # not to each stream inside the comprehension
                    inner = {id(x) for c_ in ast.walk(st)
                             if isinstance(c_, (ast.ListComp, ast.GeneratorExp))
                             for x in ast.walk(c_)}
                    arg_has_merge = any(
                        isinstance(x, ast.Call) and M.res(x.func) in ('numpy.hstack',
                                                                      'numpy.concatenate')
                        for x in ast.walk(n.args[0])) or any(
                        isinstance(x, ast.Name) and x.id == T for x in ast.walk(n.args[0]))
                    if id(n) not in inner and arg_has_merge:
                        stages.setdefault('unique', (i, st, n))
                if q == 'numpy.append' and len(n.args) == 2 and \
                        M.res(n.args[1]) == 'numpy.inf':
                    stages['sentinel'] = (i, st, n)
            if isinstance(n, ast.Subscript) and isinstance(n.value, ast.Name) and \
                    n.value.id == T and isinstance(n.slice, ast.BinOp) and \
                    isinstance(n.slice.op, ast.BitAnd):
                stages.setdefault('clip', (i, st, n))
    if 'clip' not in stages:
        # the same window applied to every stream before the merge: a loop over `measurements`
        # that replaces <m>.data by <m>.data[mask] with mask = (index >= a) & (index <= b)
        for st in M.pre:
            if not (isinstance(st, ast.For) and isinstance(st.iter, ast.Name) and
                    st.iter.id == 'measurements' and isinstance(st.target, ast.Name)):
                continue
            mv = st.target.id
            local = {t.id: b.value for b in st.body if isinstance(b, ast.Assign)
                     for t in b.targets if isinstance(t, ast.Name)}
            for b in st.body:
                if not (isinstance(b, ast.Assign) and len(b.targets) == 1 and
                        norm_text(b.targets[0]) == mv + '.data' and
                        isinstance(b.value, ast.Subscript)):
                    continue
                base = b.value.value
                if isinstance(base, ast.Attribute) and base.attr == 'loc':
                    base = base.value
                mask = b.value.slice
                if isinstance(mask, ast.Name) and mask.id in local:
                    mask = local[mask.id]
                if norm_text(base) == mv + '.data' and isinstance(mask, ast.BinOp) and \
                        isinstance(mask.op, ast.BitAnd):
                    stages['clip-streams'] = (-1, st, mask, mv + '.data.index', b)
    return stages


# --------------------------------------------------------------- SCHED-EPOCHS
def sched_epochs(ctx, which=(FB, FF)):
    ctx.rule('SCHED-EPOCHS', 'epoch list: hstack of all measurement indices -> np.unique -> '
             'clip to [start, end] -> +inf sentinel appended last')
    for M in _models(ctx, which):
        f, T = M.f, M.T
        stages = _epoch_stages(M)
        first = M.T_assigns[0]
        # merge covers every measurement object
        mg = stages.get('merge')
        ok = False
        if mg:
            a = mg[2].args[0] if mg[2].args else None
            comp = None
            for n in ast.walk(mg[2]):
                if isinstance(n, (ast.ListComp, ast.GeneratorExp)):
                    comp = n
            ok = comp is not None and isinstance(comp.generators[0].iter, ast.Name) and \
                comp.generators[0].iter.id == 'measurements' and \
                not comp.generators[0].ifs and '.data.index' in norm_text(comp.elt)
        if mg and comp is not None and mg[2].args:
            # anything merged in besides the streams (the seed that keeps np.hstack from failing
            # on an empty list) must be an EMPTY array
            extra = [e for l_ in ast.walk(mg[2].args[0]) if isinstance(l_, (ast.List, ast.Tuple))
                     and not any(l_ is x for x in ast.walk(comp)) for e in l_.elts
                     if not isinstance(e, (ast.ListComp, ast.GeneratorExp, ast.Starred))]
            for e in extra:
                empty = isinstance(e, ast.Call) and M.res(e.func) in (
                    'numpy.empty', 'numpy.zeros', 'numpy.array', 'numpy.asarray', 'numpy.ones') \
                    and len(e.args) >= 1 and (
                        (isinstance(e.args[0], ast.Constant) and e.args[0].value == 0) or
                        (isinstance(e.args[0], (ast.List, ast.Tuple)) and not e.args[0].elts) or
                        (isinstance(e.args[0], ast.Tuple) and len(e.args[0].elts) == 1 and
                         isinstance(e.args[0].elts[0], ast.Constant) and
                         e.args[0].elts[0].value == 0))
                ctx.ob('SCHED-EPOCHS', empty, None, 'the array merged in besides the streams is '
                       'empty', f=f, node=e, key='seed-empty',
                       why='`%s` is merged into the epoch list besides the measurement streams: '
                           'it contributes epochs that no measurement has (uninitialised values '
                           'for np.empty)' % norm_text(e)[:40])
        ctx.ob('SCHED-EPOCHS', ok, None, 'epoch list merges the index of every measurement '
               'object', f=f, node=first, key='merge',
               why='epoch list is not built from the time index of every element of '
                   '`measurements`')
        u = stages.get('unique')
        ctx.ob('SCHED-EPOCHS', u is not None, None, 'np.unique applied (shared stamps are one '
               'epoch)', f=f, node=(u[1] if u else first), key='unique',
               why='epoch list is not de-duplicated: a time stamp shared by two sensors is '
                   'processed twice')
        s = stages.get('sentinel')
        ctx.ob('SCHED-EPOCHS', s is not None and s[1] is M.T_assigns[-1], None,
               '+inf sentinel appended by the last definition of the epoch list', f=f,
               node=(s[1] if s else M.T_assigns[-1]), key='sentinel',
               why='the +inf sentinel is missing or not appended last: the cursor can run '
                   'past the end of the epoch list, or the sentinel is clipped/sorted away')
        c = stages.get('clip')
        cs = stages.get('clip-streams')
        okc = False
        why = 'epoch list is not clipped to [start, end]'
        if c is None and cs is None:
            # an absent stage is a finding only when nothing in the preamble looks like a window
            # (a mask built from two comparisons) that this rule failed to read
            other = [n for st_ in M.pre for n in ast.walk(st_)
                     if isinstance(n, ast.BinOp) and isinstance(n.op, ast.BitAnd) and
                     isinstance(n.left, ast.Compare) and isinstance(n.right, ast.Compare)]
            ctx.need(not other, '%s: a window `%s` is applied before the loop in a form this '
                                'rule does not read' % (f.name, norm_text(other[0])[:60]
                                                        if other else ''))
        if c or cs:
            if c:
                l, r = c[2].slice.left, c[2].slice.right
                lhs_ok = lambda e: isinstance(e, ast.Name) and e.id == T
            else:
                l, r = cs[2].left, cs[2].right
                lhs_ok = lambda e: norm_text(e) == cs[3]
                c = cs
            ops = []
            for side in (l, r):
                if isinstance(side, ast.Compare) and len(side.ops) == 1 and lhs_ok(side.left):
                    ops.append((type(side.ops[0]).__name__,
                                M.clo_pre.text(side.comparators[0], c[1])))
            lows = [x for x in ops if x[0] in ('GtE', 'Gt')]
            ups = [x for x in ops if x[0] in ('LtE', 'Lt')]
            if len(lows) == 1 and len(ups) == 1:
                ctx.need(_is_some_end(M, lows[0][1]) and _is_some_end(M, ups[0][1]),
                         '%s: clip bounds `%s` / `%s` not recognised as ends of a time axis'
                         % (f.name, lows[0][1][:50], ups[0][1][:50]))
                start_ok = _is_start(M, lows[0][1])
                end_ok = _is_end(M, ups[0][1])
                okc = lows[0][0] == 'GtE' and start_ok and end_ok
                why = ('clip is `%s %s` / `%s %s`; required: >= first sample time (an epoch '
                       'at the start time is inside [start, end)) and <=/< last sample time'
                       % (lows[0][0], lows[0][1], ups[0][0], ups[0][1]))
            if s is not None and c[0] > s[0]:
                okc = False
                why = 'clipping happens after the sentinel was appended'
        ctx.ob('SCHED-EPOCHS', okc, None, 'clipped to [start, end] before the sentinel', f=f,
               node=(c[1] if c else first), key='clip', why=why)
        if u and s:
            ctx.ob('SCHED-EPOCHS', u[0] < s[0] or u[1] is s[1] and False, None,
                   'de-duplication precedes the sentinel', f=f, node=u[1], key='order-unique',
                   why='np.unique is applied after the sentinel')
        # every definition of the epoch list re-arranges, de-duplicates or filters time stamps -
        # none computes new ones: an epoch that is not (bit for bit) an element of a stream's
        # index is looked up in that index and not found, so the sample is skipped in silence
        # (hand-made probe, sixth session: np.unique(np.round(T, 3)))
        VALUE_KEEPING = ('numpy.hstack', 'numpy.concatenate', 'numpy.unique', 'numpy.sort',
                         'numpy.asarray', 'numpy.array', 'numpy.append', 'numpy.r_',
                         'numpy.empty', 'numpy.zeros', 'numpy.ravel', 'numpy.atleast_1d',
                         'numpy.union1d', 'numpy.fromiter', 'builtins.sorted', 'builtins.list',
                         'builtins.set', 'builtins.tuple', 'builtins.len', 'builtins.float')
        for st_ in M.T_assigns:
            bad_ = None
            val = st_.value if isinstance(st_, (ast.Assign, ast.AugAssign)) else None
            if val is None:
                continue
            masks = set()
            for n_ in ast.walk(val):
                if isinstance(n_, ast.Subscript):
                    for y in ast.walk(n_.slice):
                        masks.add(id(y))
            for n_ in ast.walk(val):
                if id(n_) in masks:
                    continue            # a selection mask compares values, it does not make any
                if isinstance(n_, ast.Call):
                    q_ = M.res(n_.func)
                    if q_ is None and isinstance(n_.func, ast.Attribute) and \
                            n_.func.attr in ('copy', 'tolist', 'to_numpy', 'unique', 'sort_values',
                                             'append', 'union', 'ravel', 'flatten'):
                        continue
                    if q_ not in VALUE_KEEPING:
                        bad_ = n_
                        break
                elif isinstance(n_, ast.BinOp) and not isinstance(n_.op, (ast.BitAnd, ast.BitOr)) \
                        and not (isinstance(n_.op, ast.Add) and
                                 (isinstance(n_.left, (ast.List, ast.Tuple)) or
                                  isinstance(n_.right, (ast.List, ast.Tuple, ast.ListComp)))):
                    bad_ = n_
                    break
            if bad_ is not None and isinstance(bad_, ast.Call) and M.res(bad_.func) is None and \
                    not isinstance(bad_.func, ast.Attribute):
                ctx.need(False, '%s: call `%s` in the definition of the epoch list not resolved'
                         % (f.name, norm_text(bad_)[:50]))
            if isinstance(bad_, ast.BinOp):
                ctx.need(False, '%s: arithmetic `%s` in the definition of the epoch list is not '
                         'decided' % (f.name, norm_text(bad_)[:50]))
            known_changer = bad_ is not None and (
                (M.res(bad_.func) or '').split('.')[-1] in (
                    'round', 'around', 'rint', 'floor', 'ceil', 'trunc', 'fix', 'clip', 'add',
                    'subtract', 'multiply', 'divide', 'mod', 'float32', 'float16', 'int64', 'int32',
                    'cumsum', 'diff', 'linspace', 'arange', 'interp', 'mean', 'median')
                or (isinstance(bad_.func, ast.Attribute) and bad_.func.attr in (
                    'round', 'astype', 'clip')))
            if bad_ is not None and not known_changer:
                ctx.need(False, '%s: `%s` in the definition of the epoch list is not known to keep '
                         'the time stamps as they are' % (f.name, norm_text(bad_)[:50]))
            ctx.ob('SCHED-EPOCHS', bad_ is None, None, 'epoch list holds time stamps of the '
                   'streams unchanged (`%s`)' % norm_text(st_)[:50], f=f, node=st_,
                   key='stamps-' + norm_text(st_)[:40],
                   why='`%s` computes new time values for the epoch list: an epoch that is not '
                       'exactly an element of a measurement index is not found in it, the sample '
                       'is skipped without notice (and innovations would carry a time no sample '
                       'has)' % norm_text(bad_)[:60] if bad_ is not None else '')
        # nothing writes T inside the loop
        wr = M.writes(T)
        ctx.ob('SCHED-EPOCHS', not wr, None, 'epoch list is not modified inside the loop', f=f,
               node=(wr[0] if wr else M.loop), key='frozen',
               why='epoch list is modified inside the main loop')


_FIRST = ('.index[0]', '.index.min()', '.index.values[0]')
_LAST = ('.index[-1]', '.index.max()', '.index.values[-1]')


def _strip_num(txt):
    """float(x) / np.max(x) / np.min(x) spellings of the ends of a sorted index"""
    for _ in range(3):
        m = re.fullmatch(r'(?:float|np\.float64)\((.*)\)', txt)
        if m:
            txt = m.group(1)
            continue
        m = re.fullmatch(r'(?:np\.)?(max|min)\((\w+)\.index\)', txt)
        if m:
            txt = '%s.index.%s()' % (m.group(2), m.group(1))
        break
    return txt


def _is_start(M, txt):
    txt = _strip_num(txt)
    if M.kind == 'feedback':
        return txt.endswith('.name') and txt.split('.')[0] in M.f.params
    return txt.endswith(_FIRST) and txt.split('.')[0] in M.f.params


def _is_end(M, txt):
    txt = _strip_num(txt)
    return txt.endswith(_LAST) and txt.split('.')[0] in M.f.params


def _is_some_end(M, txt):
    """a recognisable end of a time axis (so that a WRONG end can be told from an unrecognised
    expression, which is not judged)"""
    txt = _strip_num(txt)
    return (txt.endswith('.name') or txt.endswith(_FIRST) or txt.endswith(_LAST) or
            re.search(r'\.index\[-?\d+\]$', txt) is not None) and txt.split('.')[0] in M.f.params


# -------------------------------------------------------------- SCHED-MCURSOR
def _is_inc1(st, name):
    return isinstance(st, ast.AugAssign) and isinstance(st.op, ast.Add) and \
        isinstance(st.target, ast.Name) and st.target.id == name and \
        isinstance(st.value, ast.Constant) and st.value.value == 1


def sched_mcursor(ctx, which=(FB, FF)):
    ctx.rule('SCHED-MCURSOR', 'epoch cursor: starts at literal 0; advanced by += 1 exactly once '
             'per processed epoch, only under a strict `T[m] < s` test; T indexed only by m')
    for M in _models(ctx, which):
        f = M.f
        iv = M.init_value(M.m)
        ctx.ob('SCHED-MCURSOR', isinstance(iv, ast.Constant) and iv.value == 0, None,
               'epoch cursor starts at 0', f=f, node=iv, key='init',
               why='epoch cursor does not start at 0: epochs are skipped')
        for sub in M.T_subs:
            ctx.ob('SCHED-MCURSOR', isinstance(sub.slice, ast.Name) and sub.slice.id == M.m,
                   None, 'epoch list indexed by the cursor itself', f=f, node=sub,
                   why='epoch list is read at %s, not at the cursor' % norm_text(sub.slice))
        ctx.ob('SCHED-MCURSOR', len(M.guards) == 1, None,
               'exactly one measurement-due test on the current element T[m]', f=f,
               node=M.loop, key='guard-count',
               why='%d top-level tests of the form T[m] < s in the loop body' % len(M.guards))
        wr = M.writes(M.m)
        ctx.ob('SCHED-MCURSOR', len(wr) >= 1, None, 'cursor is advanced in the loop', f=f,
               node=M.loop, key='advanced', why='epoch cursor is never advanced')
        for w in wr:
            inside = None
            for g in M.guards:
                if w in g.body:
                    inside = g
            ok = _is_inc1(w, M.m) and inside is not None
            ctx.ob('SCHED-MCURSOR', ok, None, 'cursor += 1 at the top level of the '
                   'measurement-due block', f=f, node=w,
                   why='epoch cursor is written outside the measurement-due block, inside a '
                       'nested block, or not by += 1')
        for g in M.guards:
            n_inc = sum(1 for w in wr if w in g.body)
            ctx.ob('SCHED-MCURSOR', n_inc == 1, None, 'exactly one advance per processed epoch',
                   f=f, node=g.test, key='one-advance',
                   why='%d advances of the epoch cursor per processed epoch' % n_inc)
            op = g.test.ops[0]
            ctx.ob('SCHED-MCURSOR', isinstance(op, ast.Lt), None,
                   'measurement-due test is strict (T[m] < s)', f=f, node=g.test,
                   key='strict',
                   why='measurement-due test is not a strict `<`: an epoch coinciding with '
                       'a sample is processed before that sample is integrated')


# ---------------------------------------------------------- SCHED-NO-OVERTAKE
def _next_sample_time(M, node, at):
    """Does the expression denote the time of the first pending sample?"""
    t = M.clo.text(node, at, depth=8)
    c = M.c
    if M.kind == 'feedback':
        tb = M.table
        return ('%s.iloc[%s]' % (tb, c) in t and t.endswith('.name')) or \
            t == canon_text('%s.index[%s]' % (tb, c))
    times = ['%s.index' % p for p in M.f.params[:2]]
    return any(t == canon_text('%s[%s + 1]' % (x, c)) for x in times)


def sched_no_overtake(ctx, which=(FB, FF)):
    ctx.rule('SCHED-NO-OVERTAKE', 'ordering fact T[m] >= (time of first pending sample) holds '
             'when the sample cursor is advanced: all due epochs are drained first')
    for M in _models(ctx, which):
        f = M.f
        if len(M.guards) != 1:
            ctx.ob('SCHED-NO-OVERTAKE', False, None, 'measurement-due test present', f=f,
                   node=M.loop, key='guard', why='no unique measurement-due test')
            continue
        g = M.guards[0]
        s_ok = _next_sample_time(M, g.test.comparators[0], g)
        ctx.ob('SCHED-NO-OVERTAKE', s_ok, None,
               'epoch is compared with the time of the first pending sample', f=f,
               node=g.test, key='compared-with',
               why='measurement-due test compares T[m] with `%s`, which is not the time of '
                   'the first sample not yet consumed' % M.clo.text(g.test.comparators[0], g))
        drains = isinstance(g, ast.While)
        has_break = any(isinstance(n, (ast.Break,)) for n in ast.walk(g)) if drains else False
        ctx.ob('SCHED-NO-OVERTAKE', drains and not has_break, None,
               'due epochs are drained (`while T[m] < s`), establishing T[m] >= s', f=f,
               node=g.test, key='drain',
               why='at most one epoch is handled per iteration (`if`): after `m += 1` the '
                   'fact T[m] >= s is lost, and the forced-progress step can move past a '
                   'second epoch that is due inside the same sample interval (late, '
                   'dropped or duplicated processing)')
        # after the guard: no write to m; before the guard: no write to c
        idx = M.loop.body.index(g)
        later_m = [w for st in M.loop.body[idx + 1:] for w in M.writes(M.m, st)]
        ctx.ob('SCHED-NO-OVERTAKE', not later_m, None, 'epoch cursor unchanged after the drain',
               f=f, node=(later_m[0] if later_m else g), key='m-after',
               why='epoch cursor is advanced after the measurement-due block')
        early_c = [w for st in M.loop.body[:idx + 1] for w in M.writes(M.c, st)]
        ctx.ob('SCHED-NO-OVERTAKE', not early_c, None,
               'sample cursor unchanged until the epochs are drained', f=f,
               node=(early_c[0] if early_c else g), key='c-before',
               why='sample cursor is modified before/inside the measurement-due block')
        # the pending-sample expression keeps denoting the same sample inside the drain
        root = g.test.comparators[0]
        names = {n.id for n in ast.walk(root) if isinstance(n, ast.Name)}
        for nm in names:
            for w in M.writes(nm, g):
                v = w.value if isinstance(w, ast.Assign) else None
                same = v is not None and M.kind == 'feedback' and \
                    '%s.iloc[%s]' % (M.table, M.c) in norm_text(v)
                ctx.ob('SCHED-NO-OVERTAKE', same, None,
                       'pending-sample variable re-bound to the same sample inside the drain',
                       f=f, node=w,
                       why='`%s` is re-bound inside the measurement-due block to something '
                           'that is not the pending sample' % nm)
        # next-time computation uses min(..., T[m]) so the batch ends at the next epoch
        uses_min = False
        for st in M.loop.body[idx + 1:]:
            for n in ast.walk(st):
                if isinstance(n, ast.Call) and M.res(n.func) == 'builtins.min':
                    if any(norm_text(a) == '%s[%s]' % (M.T, M.m) for a in n.args):
                        # and feeds searchsorted
                        uses_min = n
        feeds = False
        if uses_min is not False:
            for st in M.loop.body[idx + 1:]:
                for n in ast.walk(st):
                    if isinstance(n, ast.Call) and M.res(n.func) == 'numpy.searchsorted' \
                            and len(n.args) >= 2:
                        if 'min(' in M.clo.text(n.args[1], st) and \
                                '%s[%s]' % (M.T, M.m) in M.clo.text(n.args[1], st):
                            feeds = True
        ctx.ob('SCHED-NO-OVERTAKE', feeds, None,
               'batch end = searchsorted(min(time + step, T[m]))', f=f,
               node=(uses_min if uses_min is not False else g), key='min-epoch',
               why='the next epoch T[m] does not bound the batch: samples beyond a pending '
                   'epoch are consumed before it is processed')


# ------------------------------------------------------------- SCHED-PROGRESS
def _progress_guard(M, st):
    """Is `st` a guard that forces n > c?"""
    n, c = M.n, M.c
    if isinstance(st, ast.If) and isinstance(st.test, ast.Compare) and \
            len(st.test.ops) == 1 and not st.orelse:
        l, r = norm_text(st.test.left), norm_text(st.test.comparators[0])
        op = st.test.ops[0]
        cond = (({l, r} == {n, c} and isinstance(op, ast.Eq)) or
                (l == n and r == c and isinstance(op, ast.LtE)) or
                (l == c and r == n and isinstance(op, ast.GtE)))
        if cond and len(st.body) == 1:
            b = st.body[0]
            if _is_inc1(b, n) and isinstance(op, ast.Eq):
                return True
            if isinstance(b, ast.Assign) and norm_text(b.targets[0]) == n and \
                    norm_text(b.value) in ('%s + 1' % c, '1 + %s' % c):
                return True
    if isinstance(st, ast.Assign) and len(st.targets) == 1 and \
            norm_text(st.targets[0]) == n and isinstance(st.value, ast.Call) and \
            norm_text(st.value.func) == 'max':
        args = {norm_text(a) for a in st.value.args}
        if n in args and ('%s + 1' % c in args or '1 + %s' % c in args):
            return True
    return False


def sched_progress(ctx, which=(FB, FF)):
    ctx.rule('SCHED-PROGRESS', 'sample cursor from searchsorted passes a progress guard '
             '(n > c) before any use and before `c = n`: every iteration consumes >= 1 sample')
    res = {}
    for M in _models(ctx, which):
        f = M.f
        body = M.loop.body
        ndef = [st for st in body if isinstance(st, ast.Assign) and
                norm_text(st.targets[0]) == M.n]
        ok_def = len(ndef) >= 1 and 'searchsorted' in norm_text(ndef[0].value)
        ctx.ob('SCHED-PROGRESS', ok_def, None, 'candidate cursor comes from searchsorted', f=f,
               node=(ndef[0] if ndef else M.loop), key='n-def',
               why='next cursor value is not computed by searchsorted')
        commits = [st for st in body if isinstance(st, ast.Assign) and
                   norm_text(st.targets[0]) == M.c and norm_text(st.value) == M.n]
        allw = M.writes(M.c)
        ctx.ob('SCHED-PROGRESS', len(commits) == 1 and len(allw) == 1, None,
               'the only write to the sample cursor in the loop is `c = n`', f=f,
               node=(allw[0] if allw else M.loop), key='commit',
               why='sample cursor has %d writes in the loop, %d of the form c = n'
                   % (len(allw), len(commits)))
        guard = None
        first_use = None
        if ndef:
            i0 = body.index(ndef[0])
            for st in body[i0 + 1:]:
                if _progress_guard(M, st):
                    guard = st
                    break
                if any(isinstance(x, ast.Name) and x.id == M.n for x in ast.walk(st)):
                    first_use = st
                    break
        res[M.kind] = guard is not None
        late = [st for st in body if _progress_guard(M, st)] if guard is None else []
        if late:
            why = ('the new cursor %s is read by `%s` before the progress guard (line %d) '
                   'adjusts it: that read sees a value different from the one committed, so '
                   'the quantity derived from it (time of the interval end, step length) does '
                   'not belong to the rows that are propagated (zero-length step when the '
                   'guard fires)' % (M.n, norm_text(first_use)[:60], late[0].lineno))
        else:
            why = ('no progress guard (`if n == c: n += 1`) between searchsorted and the '
                   'first use of the new cursor: when min(time + step, next epoch) lies '
                   'before the next sample, n == c and the loop never advances '
                   '(non-termination) or repeats a row')
        ctx.ob('SCHED-PROGRESS', guard is not None, None,
               'progress guard directly after searchsorted, before any read of the new cursor',
               f=f, node=(guard or first_use or (ndef[0] if ndef else M.loop)), key='guard',
               why=why)
        # loop condition depends on the cursor / on state advanced by the consumed slice
        t = norm_text(M.loop.test)
        if M.kind == 'feedforward':
            okc = M.c in {x.id for x in ast.walk(M.loop.test) if isinstance(x, ast.Name)}
        else:
            okc = '.get_time()' in t
        ctx.ob('SCHED-PROGRESS', okc, None, 'loop condition reads the advanced state', f=f,
               node=M.loop.test, key='cond',
               why='loop condition does not depend on the sample cursor / integrator time')
    return res


def sched_sibling(ctx, report=('feedback', 'feedforward')):
    ctx.rule('SCHED-SIBLING', 'the two filter loops agree on prelude stages and guards')
    Ms = _models(ctx, (FB, FF))
    feats = {}
    for M in Ms:
        s = set()
        for k in _epoch_stages(M):
            s.add('epoch-list stage: ' + ('clip' if k == 'clip-streams' else k))
        body = M.loop.body
        if any(isinstance(g, ast.While) for g in M.guards):
            s.add('draining measurement-due loop')
        if any(_progress_guard(M, st) for st in body):
            s.add('progress guard after searchsorted')
        for st in M.pre:
            txt = norm_text(st)
            if 'reset_estimates' in txt:
                s.add('reset:' + txt.split('.')[0])
        feats[M.kind] = s
    a, b = feats['feedback'], feats['feedforward']
    for M in Ms:
        if M.kind not in report:
            continue
        mine = feats[M.kind]
        other = b if M.kind == 'feedback' else a
        missing = sorted(other - mine)
        ctx.ob('SCHED-SIBLING', not missing, None,
               '%s loop has every scheduling stage/guard of its sibling' % M.kind, f=M.f,
               node=M.loop.test, key='sibling',
               why='present in the sibling filter but not here: %s' % ', '.join(missing))


# ------------------------------------------------------------- SCHED-HANDOVER
def sched_handover(ctx, which=(FB, FF)):
    ctx.rule('SCHED-HANDOVER', 'every sample is handed over exactly once: consumed range is '
             '[c, n), then c = n; c starts at literal 0')
    for M in _models(ctx, which):
        f = M.f
        iv = M.init_value(M.c)
        ctx.ob('SCHED-HANDOVER', isinstance(iv, ast.Constant) and iv.value == 0 and
               not isinstance(iv.value, bool), None, 'sample cursor starts at 0', f=f, node=iv,
               key='c0', why='sample cursor does not start at row 0')
        body = M.loop.body
        if M.kind == 'feedback':
            calls = [n for n in ast.walk(M.loop) if isinstance(n, ast.Call) and
                     isinstance(n.func, ast.Attribute) and n.func.attr == 'integrate']
            ctx.ob('SCHED-HANDOVER', len(calls) == 1, None,
                   'one integrate call per iteration', f=f, node=M.loop, key='one-integrate',
                   why='%d integrator.integrate calls in the loop' % len(calls))
            for cnode in calls:
                st = _top_stmt(body, cnode)
                t = M.clo.text(cnode.args[0], st) if cnode.args else ''
                want = '%s.iloc[%s:%s]' % (M.table, M.c, M.n)
                ctx.ob('SCHED-HANDOVER', want in t and t.count('.iloc[') == 1, None,
                       'integrated batch is the slice [c:n] of the increments table', f=f,
                       node=cnode, key='batch',
                       why='batch handed to the integrator is `%s`, expected a function of '
                           '%s only' % (t[:120], want))
                # commit happens, and the guard-to-integrate order is guard < integrate
                commits = [s2 for s2 in body if isinstance(s2, ast.Assign) and
                           norm_text(s2.targets[0]) == M.c]
                ok = bool(commits) and st in body and all(
                    norm_text(s2.value) == M.n for s2 in commits)
                ctx.ob('SCHED-HANDOVER', ok, None, 'cursor committed to n', f=f,
                       node=(commits[0] if commits else M.loop), key='commit',
                       why='after integrating [c:n] the cursor is not set to n')
                # in-place top-level, once per iteration (not in a nested block)
                ctx.ob('SCHED-HANDOVER', st in body, None,
                       'integrate is executed on every iteration (top level of the loop)', f=f,
                       node=cnode, key='toplevel',
                       why='integrator.integrate is conditional')
        else:
            pairs = {}
            for st in body:
                if isinstance(st, ast.Assign) and isinstance(st.value, ast.Subscript) and \
                        isinstance(st.value.value, ast.Attribute) and \
                        st.value.value.attr == 'iloc':
                    pairs[norm_text(st.targets[0])] = (norm_text(st.value.slice), st)
            rows = sorted(v[0] for v in pairs.values())
            ctx.ob('SCHED-HANDOVER', rows == sorted([M.c, M.n]), None,
                   'interval end states are rows c and n of the nominal trajectory', f=f,
                   node=(list(pairs.values())[0][1] if pairs else M.loop), key='rows',
                   why='states averaged for the propagation are rows %s, expected %s and %s'
                       % (rows, M.c, M.n))
            # time_delta = times[n] - times[c]
            calls = [n for n in ast.walk(M.loop) if isinstance(n, ast.Call) and
                     norm_text(n.func).endswith('_compute_error_propagation_matrices')]
            for cnode in calls:
                st = _top_stmt(body, cnode)
                if len(cnode.args) >= 4:
                    t = M.clo.text(cnode.args[3], st)
                    tm = '%s.index' % M.f.params[0]
                    want = '%s[%s] - %s[%s]' % (tm, M.n, tm, M.c)
                    t_norm = _strip_array_wrappers(t)
                    # an index-aligned table (equality guard that raises) is the same axis
                    from .idxdom import _analyse
                    tabs, _, _ = _analyse(M.f)
                    for other in M.f.params[1:]:
                        if tabs.find(other) == tabs.find(M.f.params[0]):
                            t_norm = t_norm.replace('%s.index' % other, tm)
                    ctx.ob('SCHED-HANDOVER', t_norm == want, None,
                           'propagation step = times[n] - times[c]', f=f, node=cnode,
                           key='dt', why='propagation step is `%s`, expected `%s`' % (t, want))


def _strip_array_wrappers(text):
    """np.asarray(X) / np.array(X) / X.values / X.to_numpy() -> X (same element values)"""
    class T(ast.NodeTransformer):
        def visit_Call(self, n):
            self.generic_visit(n)
            if norm_text(n.func) in ('np.asarray', 'np.array', 'numpy.asarray', 'numpy.array') \
                    and len(n.args) == 1 and not n.keywords:
                return n.args[0]
            if isinstance(n.func, ast.Attribute) and n.func.attr == 'to_numpy' and not n.args:
                return n.func.value
            return n

        def visit_Attribute(self, n):
            self.generic_visit(n)
            if n.attr == 'values':
                return n.value
            return n
    try:
        tree = ast.parse(text, mode='eval')
    except SyntaxError:
        return text
    return norm_text(T().visit(tree).body)


def _top_stmt(body, node):
    for st in body:
        if any(n is node for n in ast.walk(st)):
            return st
    return None


# ----------------------------------------------------------------- SCHED-PAIR
def sched_pair(ctx, which=(FB, FF)):
    ctx.rule('SCHED-PAIR', 'per epoch: one compute_matrices(T[m]) per measurement object; each '
             'available result -> exactly one correct, one innovation, one stamp; result '
             'lists appended exactly once per iteration')
    if FB in which:
        ctx.rule('SCHED-STAMP', 'feedback: innovation stamped with its own epoch T[m]')
    for M in _models(ctx, which):
        f = M.f
        if len(M.guards) != 1:
            continue
        g = M.guards[0]
        fors = [s for s in g.body if isinstance(s, ast.For)]
        okf = len(fors) == 1 and norm_text(fors[0].iter) == 'measurements'
        ctx.ob('SCHED-PAIR', okf, None, 'one loop over all measurement objects per epoch', f=f,
               node=(fors[0] if fors else g), key='for',
               why='measurement objects are not iterated exactly once per epoch')
        if not okf:
            continue
        fr = fors[0]
        cm = [n for n in ast.walk(fr) if isinstance(n, ast.Call) and
              isinstance(n.func, ast.Attribute) and n.func.attr == 'compute_matrices']
        ctx.ob('SCHED-PAIR', len(cm) == 1, None, 'one compute_matrices call per object', f=f,
               node=fr, key='one-cm', why='%d compute_matrices calls per object' % len(cm))
        for cnode in cm:
            st = [s for s in fr.body if any(n is cnode for n in ast.walk(s))][0]
            t = M.clo.text(cnode.args[0], g.body[0] if st not in g.body else st) \
                if cnode.args else ''
            # closure evaluated at the measurement-due block
            t = _clo_in(M, cnode.args[0], fr) if cnode.args else ''
            ctx.ob('SCHED-PAIR', t == '%s[%s]' % (M.T, M.m), None,
                   'compute_matrices is asked for the current epoch T[m]', f=f, node=cnode,
                   key='cm-time', why='compute_matrices is called with time `%s`, not the '
                                      'current epoch' % t)
        ifs = [s for s in fr.body if isinstance(s, ast.If) and 'is not None' in norm_text(s.test)]
        ctx.ob('SCHED-PAIR', len(ifs) == 1, None, 'None (absent sample) is skipped', f=f,
               node=fr, key='none-test', why='result of compute_matrices is not tested for None')
        if len(ifs) == 1:
            blk = ifs[0]
            cor = [n for n in ast.walk(blk) if isinstance(n, ast.Call) and
                   M.res(n.func) == 'pyins.kalman.correct']
            ctx.ob('SCHED-PAIR', len(cor) == 1 and _top_stmt(blk.body, cor[0]) is not None
                   and not any(isinstance(x, (ast.For, ast.While, ast.If)) for x in blk.body),
                   None, 'exactly one Kalman correction per available sample', f=f, node=blk,
                   key='one-correct', why='%d kalman.correct calls per sample' % len(cor))
            apps = {}
            for n in ast.walk(blk):
                if isinstance(n, ast.Call) and isinstance(n.func, ast.Attribute) and \
                        n.func.attr == 'append' and isinstance(n.func.value, ast.Subscript):
                    apps.setdefault(norm_text(n.func.value.value), []).append(n)
            ctx.ob('SCHED-PAIR', len(apps) == 2 and all(len(v) == 1 for v in apps.values()),
                   None, 'one innovation row and one time stamp appended per sample', f=f,
                   node=blk, key='appends',
                   why='appends per available sample: %s'
                       % {k: len(v) for k, v in apps.items()})
            # both dictionaries use the same key
            keys = {norm_text(n.func.value.slice) for v in apps.values() for n in v}
            ctx.ob('SCHED-PAIR', len(keys) == 1, None, 'innovation and stamp filed under the '
                   'same key', f=f, node=blk, key='same-key',
                   why='innovation and its time stamp are filed under different keys')
            if M.kind == 'feedback':
                for dname, v in apps.items():
                    if 'time' in dname:
                        t = _clo_in(M, v[0].args[0], fr)
                        ctx.ob('SCHED-STAMP', t == '%s[%s]' % (M.T, M.m), None,
                               'stamp is the epoch T[m]', f=f, node=v[0], key='stamp',
                               why='innovation is stamped with `%s`, not with its own '
                                   'measurement time' % t)
        # result lists: appended exactly once per iteration at top level
        lists = {}
        for st in M.pre:
            if isinstance(st, ast.Assign) and isinstance(st.value, ast.List) and \
                    not st.value.elts and isinstance(st.targets[0], ast.Name):
                lists[st.targets[0].id] = []
        for n in ast.walk(M.loop):
            if isinstance(n, ast.Call) and isinstance(n.func, ast.Attribute) and \
                    n.func.attr in ('append', 'extend', 'insert') and \
                    isinstance(n.func.value, ast.Name) and n.func.value.id in lists:
                lists[n.func.value.id].append(n)
        used = {k: v for k, v in lists.items() if v}
        ctx.floor('SCHED-PAIR', len(used), 3, 'result lists in %s' % M.kind)
        gi = M.loop.body.index(g)
        positions = []
        for k, v in used.items():
            top = [n for n in v if any(isinstance(s, ast.Expr) and s.value is n
                                       for s in M.loop.body)]
            ok = len(v) == 1 and len(top) == 1 and v[0].func.attr == 'append'
            ctx.ob('SCHED-PAIR', ok, None, "result list '%s' appended exactly once per "
                   'iteration' % k, f=f, node=v[0], key='list-' + k,
                   why="result list '%s' is appended %d times, %d of them unconditionally"
                       % (k, len(v), len(top)))
            if top:
                positions.append((k, [i for i, s in enumerate(M.loop.body)
                                      if isinstance(s, ast.Expr) and s.value is top[0]][0]))
        # recorded after corrections, before the cursor moves (REC-ORDER)
        commit_i = [i for i, s in enumerate(M.loop.body) if isinstance(s, ast.Assign) and
                    norm_text(s.targets[0]) == M.c]
        for k, pos in positions:
            ok = pos > gi and (not commit_i or pos < commit_i[0])
            ctx.ob('SCHED-PAIR', ok, None, "'%s' recorded after the corrections and before "
                   'the propagation step' % k, f=f, node=M.loop.body[pos], key='order-' + k,
                   why="result list '%s' is recorded at the wrong point of the iteration" % k)


def _clo_in(M, node, at):
    """closure text of an expression evaluated at statement `at` (names assigned in
    enclosing blocks before `at`)."""
    return M.clo.text(node, at, depth=8)


# ----------------------------------------------------------------- STEP-BOUND
def step_bound(ctx):
    ctx.rule('STEP-BOUND', 'feedforward: committed row = searchsorted(times, min(time + step, '
             "T[m]), side='right') - 1, or c + 1")
    (M,) = _models(ctx, (FF,))
    f = M.f
    body = M.loop.body
    ndef = [st for st in body if isinstance(st, ast.Assign) and norm_text(st.targets[0]) == M.n]
    ctx.need(ndef, 'feedforward: definition of the next row not found')
    st = ndef[0]
    v = st.value
    ok = False
    why = 'next row is `%s`' % norm_text(v)
    if isinstance(v, ast.BinOp) and isinstance(v.op, ast.Sub) and \
            isinstance(v.right, ast.Constant) and v.right.value == 1 and \
            isinstance(v.left, ast.Call) and M.res(v.left.func) == 'numpy.searchsorted':
        call = v.left
        side = None
        for kw in call.keywords:
            if kw.arg == 'side' and isinstance(kw.value, ast.Constant):
                side = kw.value.value
        if len(call.args) >= 3 and isinstance(call.args[2], ast.Constant):
            side = call.args[2].value
        arr = M.clo.text(call.args[0], st)
        tgt = M.clo.text(call.args[1], st)
        tm = '%s.index' % f.params[0]
        want_t = canon_text('min(%s[%s] + time_step, %s[%s])' % (tm, M.c, M.T, M.m))
        ok = side == 'right' and arr == tm and tgt == want_t
        why = ("next row = searchsorted(%s, %s, side=%r) - 1; required searchsorted(%s, %s, "
               "side='right') - 1" % (arr, tgt, side, tm, want_t))
    ctx.ob('STEP-BOUND', ok, None, 'row never later than min(time + step, next epoch)', f=f,
           node=st, key='next-row', why=why)
    # other writes to n: only the progress guard
    others = [w for w in M.writes(M.n) if w is not st]
    okw = all(_is_inc1(w, M.n) or (isinstance(w, ast.Assign) and
                                  norm_text(w.value) in ('%s + 1' % M.c,) or
                                  (isinstance(w, ast.Assign) and
                                   norm_text(w.value).startswith('max(')))
              for w in others)
    ctx.ob('STEP-BOUND', okw, None, 'the only other value of the next row is c + 1', f=f,
           node=(others[0] if others else st), key='others',
           why='next row is also assigned from something other than the progress guard')
    # output index: recorded time is times[c]
    for n in ast.walk(M.loop):
        if isinstance(n, ast.Call) and isinstance(n.func, ast.Attribute) and \
                n.func.attr == 'append' and norm_text(n.func.value) == 'times_result':
            stt = _top_stmt(body, n)
            t = M.clo.text(n.args[0], stt)
            tm = '%s.index' % f.params[0]
            ctx.ob('STEP-BOUND', t == '%s[%s]' % (tm, M.c), None,
                   'recorded time is the time of row c', f=f, node=n, key='rec-time',
                   why='recorded time is `%s`' % t)


# ----------------------------------------------------------------- KEY-REBIND
def key_rebind(ctx, which=(FB, FF)):
    ctx.rule('KEY-REBIND', 'a per-class dictionary entry (key = class name, shared by measurement '
             'objects of one class) is not read after the same loop has re-bound it to a value '
             'of another kind, unless already-converted entries are skipped')
    for M in _models(ctx, which):
        f = M.f
        n = 0
        for lp in [s for s in M.post if isinstance(s, ast.For)] + \
                [s for s in M.pre if isinstance(s, ast.For)]:
            if norm_text(lp.iter) != 'measurements' or not isinstance(lp.target, ast.Name):
                continue
            el = lp.target.id
            # names bound to the class-name key
            keys = set()
            for st in lp.body:
                if isinstance(st, ast.Assign) and isinstance(st.targets[0], ast.Name) and \
                        norm_text(st.value) == '%s.__class__.__name__' % el:
                    keys.add(st.targets[0].id)
            if not keys:
                continue
            stores, loads = [], []
            for st in ast.walk(lp):
                if isinstance(st, ast.Assign) and isinstance(st.targets[0], ast.Subscript) and \
                        norm_text(st.targets[0].slice) in keys:
                    stores.append(st)
            rebound = [st for st in stores if isinstance(st.value, ast.Call) and
                       (f.module.resolve(st.value.func, f.local_names()) or '').startswith(
                           'pandas.')]
            if not rebound:
                continue
            for st in rebound:
                d = norm_text(st.targets[0].value)
                k = norm_text(st.targets[0].slice)
                # reads of the same entry earlier in the loop body
                idx = lp.body.index(st) if st in lp.body else len(lp.body)
                reads = []
                for s2 in lp.body[:idx]:
                    for x in ast.walk(s2):
                        if isinstance(x, ast.Subscript) and isinstance(x.ctx, ast.Load) and \
                                norm_text(x.value) == d and norm_text(x.slice) == k:
                            reads.append(s2)
                if not reads:
                    continue
                n += 1
                first = lp.body.index(reads[0])
                guarded = False
                for s2 in lp.body[:first + 2]:
                    if isinstance(s2, ast.If) and any(isinstance(x, ast.Continue)
                                                      for x in ast.walk(s2)):
                        t = norm_text(s2.test)
                        if 'isinstance(' in t and 'DataFrame' in t or ' in ' in t:
                            guarded = True
                ctx.ob('KEY-REBIND', guarded, None,
                       "%s: entry %s[%s] is skipped once converted" % (f.name, d, k), f=f,
                       node=st, key='rebind-%s' % d,
                       why="the loop over `measurements` reads %s[%s] (key = class name) and "
                           "then re-binds it to a DataFrame: with two measurement objects of one "
                           "class the second iteration reads the DataFrame (`if <DataFrame>` "
                           "raises ValueError) - the filter cannot return" % (d, k))
        ctx.floor('KEY-REBIND', n, 1, 're-bound per-class entries in %s' % f.name)


# ---------------------------------------------------------------- RESULT-INDEX
def result_index(ctx, modules=('filters',), floor=10):
    """Every table the filters hand out is indexed by time (`all standard-deviation and
    sensor-estimate tables are ... indexed by a strictly increasing subset of the trajectory
    times`, innovations `stamped with its own time`).  A pandas.DataFrame built without an index
    argument is numbered 0..n-1 (survey: `index=trajectory.index` dropped from the result helpers
    passed every check)."""
    ctx.rule('RESULT-INDEX', 'every DataFrame / Series constructed from array data is given an index '
             '(the time axis of the rows, the labels of a row): on the pinned tree all 60-odd '
             'constructions of the package do')
    n = 0
    for f in ctx.repo.all_functions():
        if modules and f.module.name.split('.')[-1] not in modules:
            continue
        if '.tests' in f.module.name:
            continue
        loc = f.local_names()
        for c in ast.walk(f.node):
            if not (isinstance(c, ast.Call) and f.module.resolve(c.func, loc) in (
                    'pandas.DataFrame', 'pandas.Series')):
                continue
            n += 1
            has = len(c.args) >= 2 or any(kw.arg == 'index' for kw in c.keywords) or \
                any(kw.arg is None for kw in c.keywords)
            # a table made from another table / dict of Series keeps that index
            src = c.args[0] if c.args else next((kw.value for kw in c.keywords
                                                 if kw.arg == 'data'), None)
            keeps = isinstance(src, ast.Dict) or src is None
            ctx.ob('RESULT-INDEX', has or keeps, None, '%s: `%s` is indexed' % (
                f.qualname, norm_text(c)[:40]), f=f, node=c,
                key='index-%s-%s' % (f.qualname, norm_text(c)[:40]),
                why='`%s` builds a result table without an index: its rows are numbered 0..n-1 '
                    'instead of carrying the times they belong to' % norm_text(c)[:80])
    if floor:
        ctx.floor('RESULT-INDEX', n, floor, 'DataFrame constructions in the filter module')
    else:
        ctx.ob('RESULT-INDEX', True, None, '%d pandas constructions examined' % n, key='summary')


# ---------------------------------------------------------------- EMPTY-GUARD
def _truth_of(test, name_texts):
    """+1: the test is true only when the sequence is non-empty; -1: true only when it is
    empty; 0: not a test of its emptiness.  Recognised: `x`, `not x`, `len(x)`, `len(x) > 0`,
    `len(x) != 0`, `len(x) >= 1`, `len(x) == 0`, `x != []`, `x == []`."""
    from ..flow import strip_not
    t, pol = strip_not(test)
    sg = 1 if pol else -1
    txt = norm_text(t)
    if txt in name_texts:
        return sg
    for nm in name_texts:
        if txt in ('len(%s)' % nm, 'len(%s) > 0' % nm, 'len(%s) != 0' % nm, 'len(%s) >= 1' % nm,
                   '0 < len(%s)' % nm, '%s != []' % nm):
            return sg
        if txt in ('len(%s) == 0' % nm, 'len(%s) < 1' % nm, '%s == []' % nm):
            return -sg
    return 0


def empty_guard(ctx, which=(FB, FF)):
    ctx.rule('EMPTY-GUARD', 'a per-measurement list that is filled only inside the scheduling loop '
             '(a sensor whose samples all lie outside the span leaves it empty) is indexed, '
             'stacked or asked for a second dimension only under a test that it is non-empty')
    for M in _models(ctx, which):
        f = M.f
        res = lambda e: f.module.resolve(e, f.local_names())
        # dictionaries whose entries start as [] and are appended to inside the loop
        dicts = set()
        for st in M.pre:
            for x in ast.walk(st):
                if isinstance(x, ast.Assign) and isinstance(x.targets[0], ast.Subscript) and \
                        isinstance(x.value, ast.List) and not x.value.elts:
                    dicts.add(norm_text(x.targets[0].value))
        filled = set()
        for x in ast.walk(M.loop):
            if isinstance(x, ast.Call) and isinstance(x.func, ast.Attribute) and \
                    x.func.attr in ('append', 'extend') and isinstance(x.func.value, ast.Subscript) \
                    and norm_text(x.func.value.value) in dicts:
                filled.add(norm_text(x.func.value.value))
        # an append that every run of the function executes (outside any `if`) would make the
        # entry non-empty; the repository has none (entries are filled under the epoch test)
        dicts &= filled
        ctx.need(dicts, '%s: no per-measurement result lists found' % f.name)
        n_haz = 0
        ARR = ('numpy.asarray', 'numpy.array', 'numpy.asanyarray', 'numpy.atleast_2d')
        STACK = ('numpy.vstack', 'numpy.hstack', 'numpy.concatenate', 'numpy.stack',
                 'builtins.max', 'builtins.min')

        def scan(body, lists, arrays, guard):
            """lists / arrays: texts (names or `D[k]`) that denote a maybe-empty list / an array
            made of one; guard: set of texts known non-empty here"""
            nonlocal n_haz
            lists, arrays = set(lists), set(arrays)
            for st in body:
                if isinstance(st, ast.If):
                    tr = _truth_of(st.test, lists | arrays)
                    which_ = None
                    if tr:
                        from ..flow import strip_not
                        for nm in lists | arrays:
                            if nm in norm_text(st.test):
                                which_ = nm
                    hazards(st.test, lists, arrays, guard)
                    g_body = guard | ({which_} if tr > 0 and which_ else set())
                    g_else = guard | ({which_} if tr < 0 and which_ else set())
                    scan(st.body, lists, arrays, g_body)
                    scan(st.orelse, lists, arrays, g_else)
                    continue
                if isinstance(st, (ast.For, ast.While)):
                    hazards(st.iter if isinstance(st, ast.For) else st.test, lists, arrays, guard)
                    lists, arrays = scan(st.body, lists, arrays, guard)
                    continue
                if isinstance(st, (ast.With, ast.Try)):
                    lists, arrays = scan(st.body, lists, arrays, guard)
                    continue
                hazards(st, lists, arrays, guard)
                if isinstance(st, ast.Assign) and len(st.targets) == 1 and \
                        isinstance(st.targets[0], ast.Name):
                    tgt, v = st.targets[0].id, st.value
                    vt = norm_text(v)
                    is_l = (isinstance(v, ast.Subscript) and norm_text(v.value) in dicts) or \
                        vt in lists
                    is_a = isinstance(v, ast.Call) and res(v.func) in ARR and bool(v.args) and \
                        (norm_text(v.args[0]) in lists or
                         (isinstance(v.args[0], ast.Subscript) and
                          norm_text(v.args[0].value) in dicts))
                    src_guarded = (vt in guard) if is_l else \
                        (is_a and norm_text(v.args[0]) in guard)
                    lists.discard(tgt)
                    arrays.discard(tgt)
                    guard = guard - {tgt}
                    if is_l:
                        lists.add(tgt)
                    elif is_a:
                        arrays.add(tgt)
                    if src_guarded:
                        guard = guard | {tgt}
            return lists, arrays

        def hazards(node, lists, arrays, guard):
            nonlocal n_haz
            for x in walk_no_nested_funcs(node):
                what = subj = None
                if isinstance(x, ast.Subscript) and isinstance(x.ctx, ast.Load):
                    base = norm_text(x.value)
                    is_list = base in lists or (isinstance(x.value, ast.Subscript) and
                                                norm_text(x.value.value) in dicts)
                    if is_list and isinstance(x.slice, (ast.Constant, ast.UnaryOp)) and \
                            norm_text(x.slice).lstrip('-').isdigit():
                        what, subj = 'element %s' % norm_text(x), base
                    # <array of it>.shape[k], k >= 1
                    if isinstance(x.value, ast.Attribute) and x.value.attr == 'shape' and \
                            isinstance(x.slice, ast.Constant) and isinstance(x.slice.value, int) \
                            and x.slice.value >= 1:
                        b2 = x.value.value
                        bt = norm_text(b2)
                        via = bt in arrays or (isinstance(b2, ast.Call) and res(b2.func) in ARR
                                               and b2.args and (norm_text(b2.args[0]) in lists))
                        if via:
                            what = 'dimension %s' % norm_text(x)
                            subj = bt if bt in arrays else norm_text(b2.args[0])
                if isinstance(x, ast.Call) and res(x.func) in STACK and len(x.args) >= 1 and \
                        (norm_text(x.args[0]) in lists or
                         (isinstance(x.args[0], ast.Subscript) and
                          norm_text(x.args[0].value) in dicts)):
                    what, subj = '%s(%s)' % (res(x.func).split('.')[-1], norm_text(x.args[0])), \
                        norm_text(x.args[0])
                if what is None:
                    continue
                n_haz += 1
                ok = subj in guard
                ctx.ob('EMPTY-GUARD', ok, None, '%s: %s only where the list is non-empty'
                       % (f.name, what), f=f, node=x, key='empty-' + what,
                       why='%s is evaluated although `%s` is empty for a measurement object '
                           'whose samples all lie outside the processed span (no innovation was '
                           'appended): IndexError / ValueError after the whole data set was '
                           'processed - the filter does not return' % (what, subj))
        scan(M.post, set(), set(), set())
        ctx.floor('EMPTY-GUARD', n_haz, 1, 'uses of per-measurement lists that need a non-empty '
                                           'list in %s' % f.name)


# ----------------------------------------------------------------- SCHED-SPAN / AVG-RATE
def _int_lin(e, names):
    """integer-linear form {name: coeff, 1: const} of an expression over the given atoms
    (names maps normalised text -> atom); None when not linear"""
    t = norm_text(e)
    if t in names:
        return {names[t]: 1}
    if isinstance(e, ast.Constant) and isinstance(e.value, int) and not isinstance(e.value, bool):
        return {1: e.value}
    if isinstance(e, ast.UnaryOp) and isinstance(e.op, ast.USub):
        a = _int_lin(e.operand, names)
        return None if a is None else {k: -v for k, v in a.items()}
    if isinstance(e, ast.BinOp) and isinstance(e.op, (ast.Add, ast.Sub)):
        a, b = _int_lin(e.left, names), _int_lin(e.right, names)
        if a is None or b is None:
            return None
        sg = 1 if isinstance(e.op, ast.Add) else -1
        out = dict(a)
        for k, v in b.items():
            out[k] = out.get(k, 0) + sg * v
        return {k: v for k, v in out.items() if v}
    return None


def sched_span(ctx, which=(FB, FF)):
    ctx.rule('SCHED-SPAN', 'the main loop continues exactly while input remains: feedforward while a '
             'next row exists (c + 1 <= len(table) - 1), feedback while the integrator time is '
             'strictly before the last increment time')
    for M in _models(ctx, which):
        f = M.f
        t = M.loop.test
        from ..flow import strip_not
        test, pol = strip_not(t)
        ctx.need(isinstance(test, ast.Compare) and len(test.ops) == 1,
                 '%s: loop condition `%s` is not a single comparison' % (f.name, norm_text(t)[:60]))
        op = type(test.ops[0])
        if not pol:
            op = {ast.Lt: ast.GtE, ast.LtE: ast.Gt, ast.Gt: ast.LtE, ast.GtE: ast.Lt}.get(op)
        lhs, rhs = test.left, test.comparators[0]
        if op in (ast.Gt, ast.GtE):
            lhs, rhs = rhs, lhs
            op = ast.Lt if op is ast.Gt else ast.LtE
        ctx.need(op in (ast.Lt, ast.LtE), '%s: loop condition `%s` is not an ordering test'
                 % (f.name, norm_text(t)[:60]))
        if M.kind == 'feedforward':
            names = {M.c: 'c'}
            for tb in ('trajectory', 'trajectory_nominal'):
                if tb in f.params:
                    names['len(%s)' % tb] = 'L'
                    names['len(%s.index)' % tb] = 'L'
                    names['%s.shape[0]' % tb] = 'L'
            for st in M.pre:
                # n = len(table) / times = table.index ... bound before the loop
                if isinstance(st, ast.Assign) and isinstance(st.targets[0], ast.Name):
                    tx = M.clo_pre.text(st.value, st)
                    if tx in ('len(trajectory)', 'len(trajectory_nominal)',
                              'len(trajectory.index)', 'len(trajectory_nominal.index)'):
                        names[st.targets[0].id] = 'L'
                    if tx in ('trajectory.index', 'trajectory_nominal.index'):
                        names['len(%s)' % st.targets[0].id] = 'L'
            a, b = _int_lin(lhs, names), _int_lin(rhs, names)
            ctx.need(a is not None and b is not None,
                     'feedforward: loop condition `%s` is not linear in the cursor and the number '
                     'of rows' % norm_text(t)[:60])
            d = dict(b)
            for k, v in a.items():
                d[k] = d.get(k, 0) - v
            if op is ast.LtE:
                d[1] = d.get(1, 0) + 1          # lhs <= rhs  <=>  rhs - lhs + 1 >= 1
            d = {k: v for k, v in d.items() if v}
            ok = d == {'L': 1, 'c': -1, 1: -1}
            extra = d.get(1, 0) + 1 if set(d) <= {'L', 'c', 1} and d.get('L') == 1 and \
                d.get('c') == -1 else None
            ctx.ob('SCHED-SPAN', ok, None, 'feedforward: loop runs while c + 1 <= len - 1', f=f,
                   node=t, key='ff-span',
                   why='feedforward loop condition `%s` %s' % (norm_text(t), (
                       'admits the cursor %d row(s) past the last interval (index error at the end '
                       'of every run)' % extra if extra and extra > 0 else
                       'stops %d interval(s) before the end of the trajectory: the last rows are '
                       'never processed' % -extra) if extra else
                       'is not `cursor + 1 < number of rows`'))
        else:
            integ = {n.targets[0].id for n in ast.walk(f.node) if isinstance(n, ast.Assign) and
                     isinstance(n.targets[0], ast.Name) and isinstance(n.value, ast.Call) and
                     (M.res(n.value.func) or '').endswith('strapdown.Integrator')}
            okl = isinstance(lhs, ast.Call) and isinstance(lhs.func, ast.Attribute) and \
                lhs.func.attr == 'get_time' and isinstance(lhs.func.value, ast.Name) and \
                lhs.func.value.id in integ
            rt = M.clo_pre.text(rhs, M.loop)
            okr = _is_end(M, rt) and _strip_num(rt).startswith('increments.')
            # another end of the data is a finding; an unrecognised expression is not judged
            other = _is_some_end(M, rt)
            ctx.need(okl and (okr or other), 'feedback: loop condition `%s` (right side `%s`) not '
                     'recognised' % (norm_text(t)[:60], rt[:60]))
            ctx.ob('SCHED-SPAN', okl and okr and op is ast.Lt, None,
                   'feedback: loop runs while integrator time < last increment time', f=f, node=t,
                   key='fb-span',
                   why='feedback loop condition `%s` (right side `%s`) is not `integrator time < '
                       'time of the last increment`%s'
                       % (norm_text(t), rt, ': with <= the loop asks for an increment past the '
                          'end of the table' if op is ast.LtE and okl and okr else ''))


def avg_rate(ctx, which=(FB, FF)):
    ctx.rule('AVG-RATE', 'readings at which the sensor models are linearised: sum of the rotation / '
             'velocity increments of the propagated batch (axis 0) divided by the same interval '
             'that is handed over as time_delta')
    repo = ctx.repo
    h = repo.function('filters._compute_error_propagation_matrices')
    theta = list(repo.const('util.THETA_COLS'))
    dv = list(repo.const('util.DV_COLS'))
    n_ob = 0
    for M in _models(ctx, which):
        f = M.f
        calls = [(n, st) for st in M.loop.body for n in ast.walk(st)
                 if isinstance(n, ast.Call) and
                 (M.res(n.func) or '').endswith('filters._compute_error_propagation_matrices')]
        ctx.need(len(calls) == 1, '%s: call of the propagation helper' % f.name)
        call, cst = calls[0]
        b = {}
        for i, a in enumerate(call.args):
            if i < len(h.params):
                b[h.params[i]] = a
        for kw in call.keywords:
            b[kw.arg] = kw.value
        ctx.need({'gyro', 'accel', 'time_delta'} <= set(b), '%s: helper arguments' % f.name)
        for role, cols in (('gyro', theta), ('accel', dv)):
            e = b[role]
            # definitions reaching the call: under `if increments is None: X = None else: X = ...`
            defs = []
            if isinstance(e, ast.Name):
                for s_ in ast.walk(M.loop):
                    if isinstance(s_, ast.Assign) and isinstance(s_.targets[0], ast.Name) and \
                            s_.targets[0].id == e.id:
                        defs.append(s_)
            else:
                defs = [ast.Assign(targets=[ast.Name('_', ast.Store())], value=e)]
            real = [d for d in defs if not (isinstance(d.value, ast.Constant) and
                                            d.value.value is None)]
            ctx.need(len(real) == 1, "%s: definition of the averaged %s readings" % (f.name, role))
            v = real[0].value
            ok_shape = isinstance(v, ast.BinOp) and isinstance(v.op, (ast.Div, ast.Mult))
            ctx.need(ok_shape, '%s: averaged %s readings `%s` not of the form sum / interval'
                     % (f.name, role, norm_text(v)[:60]))
            num, den = v.left, v.right
            why = []
            if isinstance(v.op, ast.Mult):
                # sum * (1 / dt) is an equivalent spelling
                if isinstance(den, ast.BinOp) and isinstance(den.op, ast.Div) and \
                        isinstance(den.left, ast.Constant) and den.left.value == 1:
                    den = den.right
                else:
                    why.append('the sum of increments is multiplied by `%s` instead of divided by '
                               'the interval' % norm_text(den))
            if norm_text(den) != norm_text(b['time_delta']):
                why.append('divided by `%s` while the step handed over is `%s`'
                           % (norm_text(den), norm_text(b['time_delta'])))
            okn = isinstance(num, ast.Call) and isinstance(num.func, ast.Attribute) and \
                num.func.attr == 'sum'
            ctx.need(okn, '%s: numerator `%s` is not a .sum(...)' % (f.name, norm_text(num)[:50]))
            ax = [k.value for k in num.keywords if k.arg == 'axis'] + list(num.args[:1])
            axv = ax[0].value if ax and isinstance(ax[0], ast.Constant) else None
            if axv != 0:
                why.append('summed along axis %r (the batch rows are axis 0)' % axv)
            base = num.func.value
            if isinstance(base, ast.Attribute) and base.attr == 'values':
                base = base.value
            ctx.need(isinstance(base, ast.Subscript), '%s: summed table `%s`'
                     % (f.name, norm_text(base)[:50]))
            try:
                sel = repo.fold(base.slice, f.module)
            except ValueError:
                sel = None
            if list(sel or ()) != cols:
                why.append('columns %s are summed, expected %s' % (sel, cols))
            n_ob += 1
            ctx.ob('AVG-RATE', not why, None, '%s: averaged %s readings = sum(%s, axis 0) / time_delta'
                   % (M.kind, role, cols), f=f, node=real[0] if hasattr(real[0], 'lineno') else call,
                   key='%s-%s' % (M.kind, role),
                   why='%s filter, readings for the %s model: %s' % (M.kind, role, '; '.join(why)))
        # time-label batches (feedforward): the rows in (t0, t1] with time_delta = t1 - t0
        bases = set()
        for role in ('gyro', 'accel'):
            e = b[role]
            if isinstance(e, ast.Name):
                for s_ in ast.walk(M.loop):
                    if isinstance(s_, ast.Assign) and isinstance(s_.targets[0], ast.Name) and \
                            s_.targets[0].id == e.id:
                        for x in ast.walk(s_.value):
                            if isinstance(x, ast.Subscript) and isinstance(x.value, ast.Name):
                                bases.add(x.value.id)
        for bn in sorted(bases):
            bd = [s_ for s_ in ast.walk(M.loop) if isinstance(s_, ast.Assign) and
                  isinstance(s_.targets[0], ast.Name) and s_.targets[0].id == bn]
            if len(bd) != 1:
                continue
            v = bd[0].value
            if not (isinstance(v, ast.Subscript) and isinstance(v.value, ast.Attribute) and
                    v.value.attr == 'loc' and isinstance(v.slice, ast.Slice)):
                continue          # positional batches are judged by SCHED-HANDOVER
            td = b['time_delta']
            tdd = None
            if isinstance(td, ast.Name):
                ds = [s_ for s_ in M.loop.body if isinstance(s_, ast.Assign) and
                      isinstance(s_.targets[0], ast.Name) and s_.targets[0].id == td.id]
                if len(ds) == 1 and isinstance(ds[0].value, ast.BinOp) and \
                        isinstance(ds[0].value.op, ast.Sub):
                    tdd = ds[0].value
            ctx.need(tdd is not None, '%s: time_delta is not a difference of two times' % f.name)
            t1, t0 = norm_text(tdd.left), norm_text(tdd.right)
            lo, hi = v.slice.lower, v.slice.upper
            why = []
            if hi is None or norm_text(hi) != t1:
                why.append('the batch ends at `%s` while the interval ends at `%s`'
                           % (norm_text(hi) if hi is not None else 'the last row', t1))
            oklo = isinstance(lo, ast.Call) and (M.res(lo.func) or '') == 'numpy.nextafter' and \
                len(lo.args) == 2 and norm_text(lo.args[0]) == t0 and norm_text(lo.args[1]) == t1
            if not oklo:
                why.append('the batch starts at `%s`, not just after the start of the interval '
                           '(np.nextafter(%s, %s)): the increment stamped at %s belongs to the '
                           'previous interval' % (norm_text(lo) if lo is not None else 'the first '
                                                  'row', t0, t1, t0))
            n_ob += 1
            ctx.ob('AVG-RATE', not why, None, '%s: averaged batch = increments in (%s, %s]'
                   % (M.kind, t0, t1), f=f, node=bd[0], key='%s-batch' % M.kind,
                   why='%s filter: %s' % (M.kind, '; '.join(why)))
    ctx.floor('AVG-RATE', n_ob, 2 * len(which), 'averaged readings')


def step_bound_fb(ctx):
    ctx.rule('STEP-BOUND', "feedback: batch end = searchsorted(increments.index, min(time + time_step, "
             "T[m]), side='right'), time = integrator time at the start of the iteration")
    (M,) = _models(ctx, (FB,))
    f = M.f
    body = M.loop.body
    ndef = [st for st in body if isinstance(st, ast.Assign) and norm_text(st.targets[0]) == M.n]
    ctx.need(ndef, 'feedback: definition of the batch end not found')
    st = ndef[0]
    v = st.value
    ctx.need(isinstance(v, ast.Call) and M.res(v.func) == 'numpy.searchsorted' and len(v.args) >= 2,
             'feedback: batch end `%s` is not a searchsorted call' % norm_text(v)[:60])
    side = None
    for kw in v.keywords:
        if kw.arg == 'side' and isinstance(kw.value, ast.Constant):
            side = kw.value.value
    if len(v.args) >= 3 and isinstance(v.args[2], ast.Constant):
        side = v.args[2].value
    arr = M.clo.text(v.args[0], st)
    integ = {n.targets[0].id for n in ast.walk(f.node) if isinstance(n, ast.Assign) and
             isinstance(n.targets[0], ast.Name) and isinstance(n.value, ast.Call) and
             (M.res(n.value.func) or '').endswith('strapdown.Integrator')}

    def one_level(e, at):
        """the expression a local name stands for at `at` (one step), else the expression"""
        if isinstance(e, ast.Name):
            ds = [s_ for s_ in body if isinstance(s_, ast.Assign) and
                  isinstance(s_.targets[0], ast.Name) and s_.targets[0].id == e.id and
                  body.index(s_) < body.index(at)]
            if ds:
                return ds[-1].value, ds[-1]
        return e, at
    tgt, tst = one_level(v.args[1], st)
    why = []
    if side != 'right':
        why.append("side=%r (an increment stamped exactly at the bound belongs to the batch: "
                   "side='right')" % side)
    if arr != 'increments.index':
        why.append('searched axis is `%s`, not the increment times' % arr)
    okm = isinstance(tgt, ast.Call) and norm_text(tgt.func) in ('min', 'np.minimum') and \
        len(tgt.args) == 2
    if not okm:
        why.append('bound is `%s`, not min(time + time_step, next epoch)' % norm_text(tgt)[:60])
    else:
        a, b = tgt.args
        if M.clo.text(a, tst) == '%s[%s]' % (M.T, M.m):
            a, b = b, a
        if M.clo.text(b, tst) != '%s[%s]' % (M.T, M.m):
            why.append('bound does not include the next measurement epoch %s[%s]' % (M.T, M.m))
        oks = isinstance(a, ast.BinOp) and isinstance(a.op, ast.Add)
        if oks:
            x, y = a.left, a.right
            if norm_text(x) == 'time_step':
                x, y = y, x
            xv, _ = one_level(x, tst)
            oks = norm_text(y) == 'time_step' and 'time_step' in f.params and \
                isinstance(xv, ast.Call) and isinstance(xv.func, ast.Attribute) and \
                xv.func.attr == 'get_time' and isinstance(xv.func.value, ast.Name) and \
                xv.func.value.id in integ
            if oks and isinstance(x, ast.Name):
                # the time variable is the one defined at the top of the iteration, before any
                # integrate call
                d_ = [s_ for s_ in body if isinstance(s_, ast.Assign) and
                      isinstance(s_.targets[0], ast.Name) and s_.targets[0].id == x.id]
                adv = [s_ for s_ in body if any(
                    isinstance(c, ast.Call) and isinstance(c.func, ast.Attribute) and
                    c.func.attr == 'integrate' for c in ast.walk(s_))]
                oks = bool(d_) and (not adv or body.index(d_[0]) < body.index(adv[0]))
        if not oks:
            why.append('the other bound is `%s`, not (integrator time at the start of the '
                       'iteration) + time_step' % norm_text(a)[:60])
    ctx.ob('STEP-BOUND', not why, None, 'feedback: batch never extends beyond min(time + step, next '
           'epoch)', f=f, node=st, key='fb-next', why='feedback filter: ' + '; '.join(why))
