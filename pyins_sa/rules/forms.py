"""FORM-AGREE - the scalar form and the stacked form of the same input give the same values.

Functions documented as accepting `shape (3,) or (n, 3)` / `float or (n,)` input dispatch on
`ndim` (different code in the two arms, `result[0] if x.ndim == 0 else result`, n = 1 or
len(x)).  The rule evaluates each such function twice with the normalising evaluator - once
with every per-sample scalar having ndim 0 (scalar form) and once with ndim 1 / a symbolic
length (stacked form) - and compares the results of the generic sample entry by entry in the
N1 normal form.  An edit made to one arm only (a sign, a component, a unit) shows up as a
difference; tests that use one of the forms cannot see it.
"""
import ast

from ..expr import SymEval, SArray, Unsupported, Opaque, RuntimeFailure
from ..model import AnalysisError
from ..nf import Alg, Rat
from ..rotmodel import RotHooks

# function -> argument kinds: 's' per-sample scalar, 'v' 3-vector, names are only atom labels
TARGETS = [
    ('earth.gravity', ['s:lat', 's:alt']),
    ('earth.gravity_n', ['s:lat', 's:alt']),
    ('earth.principal_radii', ['s:lat', 's:alt']),
    ('earth.curvature_matrix', ['s:lat', 's:alt']),
    ('earth.rate_n', ['s:lat']),
    ('earth.gravitation_ecef', ['v:lat,lon,alt']),
    ('transform.lla_to_ecef', ['v:lat,lon,alt']),
    ('transform.ecef_to_lla', ['v:x,y,z']),
    ('transform.perturb_lla', ['v:lat,lon,alt', 'v:dn,de,dd']),
    ('transform.compute_lla_difference', ['v:lat,lon,alt', 'v:lat2,lon2,alt2']),
    ('transform.mat_en_from_ll', ['s:lat', 's:lon']),
    ('transform.mat_from_rph', ['v:roll,pitch,heading']),
    ('util.skew_matrix', ['v:a,b,c']),
    ('error_model._phi_to_delta_rph', ['v:roll,pitch,heading']),
]


class _FH(RotHooks):
    """comparisons on data (not on ndim) take one fixed outcome in both forms"""

    def __init__(self, outcome):
        self.outcome = outcome

    def compare(self, ev, node, a, b):
        A = ev.A
        try:
            ra, rb = ev.rat(a), ev.rat(b)
        except Exception:
            return None
        if A.is_const(ra) and A.is_const(rb):
            return None
        return self.outcome

    def call(self, ev, q, node, args, kwargs, env):
        if q in ('builtins.abs', 'numpy.abs', 'numpy.fabs') and args and isinstance(args[0], Rat):
            return ev.A.sqrt(ev.A.mul(args[0], args[0]))
        return RotHooks.call(self, ev, q, node, args, kwargs, env)


def _flat(v):
    if isinstance(v, SArray):
        out = {}
        for i in v.indices():
            try:
                out[i] = v.get(i)
            except Unsupported:
                out[i] = None
        return out
    if isinstance(v, (tuple, list)):
        d = {}
        for k, x in enumerate(v):
            for i, y in _flat(x).items():
                d[(k,) + i] = y
        return d
    return {(): v}


def _sampleness(v):
    """tuple of the per-sample flags of the arrays in a result (scalars carry none)"""
    if isinstance(v, SArray):
        return (bool(v.sample),)
    if isinstance(v, (tuple, list)):
        out = ()
        for x in v:
            out += _sampleness(x)
        return out
    return ()


def form_agree(ctx, modules=None, floor=None):
    ctx.rule('FORM-AGREE', 'scalar form and stacked form of the same input give the same value for '
             'the generic sample (the two ndim-dispatch arms compute the same function)')
    repo = ctx.repo
    n = 0
    for fq, spec in TARGETS:
        if modules and fq.split('.')[0] not in modules:
            continue
        f = repo.function(fq)
        ctx.touch(f)
        has_data_compare = fq.endswith('ecef_to_lla')
        for outcome in ((True, False) if has_data_compare else (True,)):
            A = Alg()
            res, rank = {}, {}
            for stacked in (False, True):
                ev = SymEval(repo, A, hooks=_FH(outcome))
                ev.stacked = stacked
                args = []
                for sp in spec:
                    kind, names = sp.split(':')
                    if kind == 's':
                        args.append(A.sym(names))
                    else:
                        nm = names.split(',')
                        args.append(SArray((len(nm),), {(i,): A.sym(x) for i, x in enumerate(nm)},
                                           None, stacked))
                try:
                    raw = ev.call_function(f, args)
                    rank[stacked] = _sampleness(raw)
                    res[stacked] = _flat(raw)
                except Unsupported as e:
                    if str(e).startswith('shape mismatch') or isinstance(e, RuntimeFailure):
                        res[stacked] = 'raises: %s' % e
                        continue
                    raise AnalysisError('%s not analysable in %s form: %s'
                                        % (fq, 'stacked' if stacked else 'scalar', e))
            a, b = res[False], res[True]
            diff = []
            if isinstance(a, str) or isinstance(b, str):
                diff = ['the %s form %s' % ('scalar' if isinstance(a, str) else 'stacked',
                                            a if isinstance(a, str) else b)]
                a = a if not isinstance(a, str) else {}
            elif set(a) != set(b):
                diff = ['result shapes differ: %d vs %d entries' % (len(a), len(b))]
            else:
                for k in sorted(a):
                    x, y = a[k], b[k]
                    if isinstance(x, Rat) and isinstance(y, Rat):
                        if A.key(x) != A.key(y) and (A.refuted(x, y) or not A.eq(x, y)):
                            diff.append('component %s' % (list(k),))
                    elif not (x is None and y is None):
                        diff.append('component %s (not comparable)' % (list(k),))
            # rank of the result: the scalar form returns one value (no leading axis of length
            # 1 left over from the shared (n, ...) buffer), the stacked form one value per sample
            # (not row 0 of the buffer)
            if not diff and True in rank.get(False, ()):
                diff.append('the scalar form returns the internal (1, ...) buffer instead of its '
                            'only row (extra leading axis)')
            if not diff and False in rank.get(True, ()) and True in rank.get(True, ()) or \
                    (not diff and rank.get(True) == (False,) and any(
                        isinstance(x, Rat) and not A.is_const(x) for x in b.values())):
                diff.append('the stacked form returns a single row of its per-sample result '
                            '(the other samples are dropped)')
            n += 1
            ctx.ob('FORM-AGREE', not diff, None,
                   '%s: scalar and stacked forms agree on %d components%s'
                   % (fq, len(a), '' if not has_data_compare else ' (comparison outcome %s)' % outcome),
                   f=f, node=f.node, key='form-%s-%s' % (fq, outcome),
                   why='%s returns different values for the scalar form and for one row of the '
                       'stacked form of the same input: %s' % (fq, '; '.join(diff[:4])))
    ctx.floor('FORM-AGREE', n, floor or (5 if modules else 12), 'dual-form functions compared')


def _same(A, x, y):
    """structural equality of evaluator values (normal-form equality on scalars)"""
    if isinstance(x, Rat) and isinstance(y, Rat):
        return A.key(x) == A.key(y) or (not A.refuted(x, y) and A.eq(x, y))
    if isinstance(x, SArray) and isinstance(y, SArray):
        if x.shape != y.shape:
            return False
        for i in x.indices():
            try:
                a, b = x.get(i), y.get(i)
            except Unsupported:
                return False
            if not _same(A, a, b):
                return False
        return True
    if isinstance(x, Opaque) and isinstance(y, Opaque):
        return x.tag == y.tag and len(x.parts) == len(y.parts) and \
            all(_same(A, a, b) for a, b in zip(x.parts, y.parts))
    if isinstance(x, (tuple, list)) and isinstance(y, (tuple, list)):
        return len(x) == len(y) and all(_same(A, a, b) for a, b in zip(x, y))
    if isinstance(x, dict) and isinstance(y, dict):
        return set(x) == set(y) and all(_same(A, x[k], y[k]) for k in x)
    if x is None or isinstance(x, (str, int, float, bool)):
        return x == y
    return False


def form_agree_tables(ctx):
    """Series form (one state) vs DataFrame form (a table of states) of the error-model
    methods that accept both: the row of the table result equals the Series result."""
    from . import errmodel
    from ..expr import Rec
    ctx.rule('FORM-AGREE', 'error-model methods: the result for one row of a Trajectory table '
             'equals the result for that row passed as a Pva series')
    repo = ctx.repo
    n = 0
    for wa in (True, False):
        for mname in ('system_matrices', 'transform_to_output', 'transform_to_internal'):
            A = Alg()
            res = {}
            f = None
            for kind in ('series', 'frame'):
                ev = SymEval(repo, A, hooks=errmodel._H())
                ev.stacked = ev.columns_are_series = (kind == 'frame')
                emc, em = errmodel._em(ctx, ev, wa)
                f = emc.methods.get(mname)
                ctx.need(f is not None, 'InsErrorModel.%s missing' % mname)
                cols = {k: A.sym(k) for k in repo.const('util.TRAJECTORY_COLS')}
                try:
                    res[kind] = ev.call_function(f, [Rec(cols, kind)], {}, em)
                except Unsupported as e:
                    raise AnalysisError('InsErrorModel.%s not analysable in %s form: %s'
                                        % (mname, kind, e))
            ctx.touch(f)
            n += 1
            rs, rf = _sampleness(res['series']), _sampleness(res['frame'])
            ctx.ob('FORM-AGREE', True not in rs and False not in rf, None,
                   'InsErrorModel.%s (with_altitude=%s): one result for a Pva series, one per '
                   'row for a Trajectory table' % (mname, wa), f=f, node=f.node,
                   key='table-rank-%s-%s' % (mname, wa),
                   why='InsErrorModel.%s (with_altitude=%s) %s' % (mname, wa, (
                       'returns an array with a leading axis of length 1 for a Pva series'
                       if True in rs else 'returns a single row of a per-sample quantity for a '
                       'Trajectory table (the matrix of the first state is used for all)')))
            ctx.ob('FORM-AGREE', _same(A, res['series'], res['frame']), None,
                   'InsErrorModel.%s (with_altitude=%s): Series and DataFrame forms agree'
                   % (mname, wa), f=f, key='table-%s-%s' % (mname, wa),
                   why='InsErrorModel.%s (with_altitude=%s) computes different values for a Pva '
                       'series and for the same state as a row of a Trajectory table'
                       % (mname, wa))
    ctx.floor('FORM-AGREE', n, 6, 'table/series method pairs')


def util_prod(ctx):
    """util.mm_prod / mv_prod / mm_prod_symmetric against their documented meaning, for single
    and stacked operands and every flag combination (the 2-D and the 3-D transposition arms are
    different code)."""
    ctx.rule('UTIL-PROD', 'mm_prod(a, b, at, bt) == a^(T) @ b^(T), mv_prod(a, b, at) == a^(T) @ b, '
             'mm_prod_symmetric(a, b) == a @ b @ a^T per sample, for single and stacked operands')
    repo = ctx.repo
    A = Alg()
    n = 0

    def M(name, stacked, shape=(3, 3)):
        return SArray(shape, {i: A.sym('%s%s' % (name, ''.join(map(str, i))))
                              for i in SArray(shape, {}).indices()}, None, stacked)
    for fq, nargs in (('util.mm_prod', 2), ('util.mv_prod', 2), ('util.mm_prod_symmetric', 2)):
        f = repo.function(fq)
        ctx.touch(f)
        flags = {'util.mm_prod': [(x, y) for x in (False, True) for y in (False, True)],
                 'util.mv_prod': [(x,) for x in (False, True)],
                 'util.mm_prod_symmetric': [()]}[fq]
        for sa in (False, True):
            for sb in (False, True):
                for fl in flags:
                    ev = SymEval(repo, A)
                    ev.stacked = sa or sb
                    a = M('a', sa)
                    b = M('b', sb) if fq != 'util.mv_prod' else M('b', sb, (3,))
                    try:
                        got = ev.call_function(f, [a, b] + list(fl))
                    except Unsupported as e:
                        raise AnalysisError('%s not analysable (stacked=%s/%s, flags=%s): %s'
                                            % (fq, sa, sb, fl, e))
                    a0, b0 = M('a', False), (M('b', False) if fq != 'util.mv_prod'
                                             else M('b', False, (3,)))
                    if fq == 'util.mm_prod':
                        want = ev.matmul(ev.transpose(a0) if fl[0] else a0,
                                         ev.transpose(b0) if fl[1] else b0)
                    elif fq == 'util.mv_prod':
                        want = ev.matmul(ev.transpose(a0) if fl[0] else a0, b0)
                    else:
                        want = ev.matmul(ev.matmul(a0, b0), ev.transpose(a0))
                    ok = isinstance(got, SArray) and got.shape == want.shape and \
                        all(A.eq(got.get(i), want.get(i)) for i in want.indices())
                    n += 1
                    ctx.ob('UTIL-PROD', ok, None, '%s(a %s, b %s, flags %s)'
                           % (f.name, 'stacked' if sa else 'single', 'stacked' if sb else 'single',
                              fl), f=f, key='%s-%s-%s-%s' % (f.name, sa, sb, fl),
                           why='%s does not compute the documented product for a %s, b %s, '
                               'transposition flags %s' % (f.name, 'stacked' if sa else 'single',
                                                           'stacked' if sb else 'single', fl))
    ctx.floor('UTIL-PROD', n, 20, 'operand-form / flag combinations')
