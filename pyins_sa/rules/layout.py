"""C11 / C12 - joint state layout, provenance of blocks, initial covariance, recursion
order, estimate reset / feedback guards.

LAYOUT-STATE  every state slice equals one of the canonical blocks
              [0,n_e) | [n_e,n_e+n_g) | [n_e+n_g, n_e+n_g+n_a) in all six functions
LAYOUT-NOISE  noise slices equal the blocks implied by the operand order of the hstack of
              noise intensities; J pairs with output noise (v), G with driving noise (q)
LAYOUT-PROV   what is stored into / read from a block comes from the model that owns the
              block (roles gyro / accel propagated positionally through the helpers)
P0-FORM       P_ins = T P_pva T^T, T = transform_to_internal(pva); sigma^2 on the diagonal
              at the index of its own component
REC-ORDER     x and P propagated with the same (Phi, Qd); H embedded in the ins block
EST-RESET     both filters reset both models unconditionally before the loop
EST-GUARD     feedback: set_pva / update_estimates / kalman.correct only in the
              measurement-due block
FB-LAYOUT     feedback: each consumer gets the slice of its own block
"""
import ast

from ..flow import Closure
from ..model import AnalysisError, norm_text, FunctionInfo
from ..nf import Alg

FUNCS = ['filters._initialize_covariance', 'filters._compute_error_propagation_matrices',
         'filters._compute_sd', 'filters._compute_feedforward_result',
         'filters.run_feedback_filter', 'filters.run_feedforward_filter']
PUBLIC = ('filters.run_feedback_filter', 'filters.run_feedforward_filter')


def _roles(ctx):
    """(function fq, local name) -> 'ins' | 'gyro' | 'accel', propagated positionally."""
    if 'roles' in ctx.cache:
        return ctx.cache['roles']
    repo = ctx.repo
    roles = {}
    for fq in PUBLIC:
        f = repo.function(fq)
        for p in f.params:
            if p == 'gyro_model':
                roles[(f.fq, p)] = 'gyro'
            elif p == 'accel_model':
                roles[(f.fq, p)] = 'accel'
    mod = repo.module('filters')
    for (ffq, var), t in ctx.types.types.items():
        if t.endswith('error_model.InsErrorModel') and ffq.startswith(mod.name + '.'):
            roles[(ffq, var)] = 'ins'
    changed = True
    n = 0
    while changed and n < 5:
        changed = False
        n += 1
        for f in mod.functions.values():
            for node in ast.walk(f.node):
                if isinstance(node, ast.Call):
                    q = f.module.resolve(node.func, f.local_names())
                    g = repo.lookup(q) if q else None
                    if isinstance(g, FunctionInfo) and g.module is mod:
                        for i, a in enumerate(node.args):
                            r = _expr_role(roles, f, a)
                            if r and i < len(g.params):
                                key = (g.fq, g.params[i])
                                if roles.get(key) not in (r,):
                                    if key in roles and roles[key] != r:
                                        roles[key] = 'conflict'
                                    else:
                                        roles[key] = r
                                    changed = True
    ctx.cache['roles'] = roles
    return roles


def _expr_role(roles, f, node):
    rs = set()
    for n in ast.walk(node):
        if isinstance(n, ast.Name) and (f.fq, n.id) in roles:
            rs.add(roles[(f.fq, n.id)])
        if isinstance(n, ast.Name) and n.id == 'THETA_COLS':
            rs.add('gyro')
        if isinstance(n, ast.Name) and n.id == 'DV_COLS':
            rs.add('accel')
    rs.discard('ins')
    if len(rs) == 1:
        return next(iter(rs))
    if not rs and any(isinstance(n, ast.Name) and roles.get((f.fq, n.id)) == 'ins'
                      for n in ast.walk(node)):
        return 'ins'
    return None


class _Fn:
    """Per-function view: size atoms, slices, local roles."""

    def __init__(self, ctx, fq):
        self.ctx = ctx
        self.f = f = ctx.repo.function(fq)
        if fq != FUNCS[1]:            # the propagation wrapper: Q-PSD judges each return
            ctx.single_exit(f)
        self.roles = _roles(ctx)
        self.A = Alg()
        self.clo = Closure(f)
        self.owner = {}
        for p in f.local_names():
            r = self.roles.get((f.fq, p))
            if r in ('ins', 'gyro', 'accel'):
                self.owner[p] = r
        # locals bound to fresh models: X = inertial_sensor.EstimationModel() keeps role of X
        self.slices = {}        # local name -> (lo Rat, hi Rat|None, stmt)
        self.neg_zero = []      # slice bounds `-<model size>`
        self.local_role = {}    # derived locals -> role (Hg, Fig, gyro_average, ...)
        self._scan()

    def size_atom(self, role, attr='n_states'):
        return self.A.sym('%s.%s' % (role, attr))

    def lin(self, node, at):
        A = self.A
        if node is None:
            return None
        if isinstance(node, ast.Constant) and isinstance(node.value, int):
            return A.const(node.value)
        if isinstance(node, ast.BinOp) and isinstance(node.op, (ast.Add, ast.Sub)):
            l, r = self.lin(node.left, at), self.lin(node.right, at)
            if l is None or r is None:
                return None
            return A.add(l, r) if isinstance(node.op, ast.Add) else A.sub(l, r)
        if isinstance(node, ast.Attribute) and isinstance(node.value, ast.Name) and \
                node.value.id in self.owner and node.attr in ('n_states', 'n_noises',
                                                              'n_output_noises'):
            return A.sym('%s.%s' % (self.owner[node.value.id], node.attr))
        if isinstance(node, ast.Name):
            e = self.clo.expr(node, at, depth=3)
            if not (isinstance(e, ast.Name) and e.id == node.id):
                return self.lin(e, at)
            return None
        if isinstance(node, ast.Call) and norm_text(node.func) == 'len' and node.args:
            # len(P) / len(x): total number of states when P is the joint covariance
            t = self.clo.text(node.args[0], at, depth=2)
            if '_initialize_covariance' in t or 'np.zeros(len(' in t:
                return A.add(A.add(self.size_atom('ins'), self.size_atom('gyro')),
                             self.size_atom('accel'))
            return None
        return None

    def _scan(self):
        f = self.f
        for st in ast.walk(f.node):
            if isinstance(st, ast.Assign) and len(st.targets) == 1 and \
                    isinstance(st.targets[0], ast.Name) and isinstance(st.value, ast.Call) and \
                    norm_text(st.value.func) == 'slice':
                a = st.value.args
                if len(a) == 1:
                    lo, hi = self.A.const(0), self.lin(a[0], st)
                    open_end = False
                else:
                    lo = self.lin(a[0], st)
                    open_end = isinstance(a[1], ast.Constant) and a[1].value is None
                    hi = None if open_end else self.lin(a[1], st)
                self.slices[st.targets[0].id] = (lo, hi, open_end, st)
                # a bound counted from the end by a model size: -0 is 0, so for a model without
                # states (the documented default of the filters) the slice is the whole vector
                for b_ in a:
                    if isinstance(b_, ast.UnaryOp) and isinstance(b_.op, ast.USub):
                        inner = self.lin(b_.operand, st)
                        if inner is not None and not self.A.is_const(inner):
                            self.neg_zero.append((st, b_))
        self.clo_b = Closure(f, stop=set(self.slices))


def _canon_blocks(F, kind='state'):
    A = F.A
    if kind == 'state':
        e, g, a = F.size_atom('ins'), F.size_atom('gyro'), F.size_atom('accel')
        return [('ins', A.const(0), e), ('gyro', e, A.add(e, g)),
                ('accel', A.add(e, g), A.add(A.add(e, g), a))]
    raise ValueError


def _classify(F, lo, hi, open_end, blocks):
    A = F.A
    if lo is None or (hi is None and not open_end):
        return None
    for i, (name, blo, bhi) in enumerate(blocks):
        if A.eq(lo, blo) and ((open_end and i == len(blocks) - 1) or
                              (hi is not None and A.eq(hi, bhi))):
            return name
    return False


def layout_state(ctx):
    ctx.rule('LAYOUT-STATE', 'every state slice is one of the canonical contiguous blocks '
             '[ins | gyro | accel], identically in all six functions')
    total = 0
    res = {}
    for fq in FUNCS:
        F = _Fn(ctx, fq)
        blocks = _canon_blocks(F)
        res[fq] = {}
        for st_, b_ in F.neg_zero:
            ctx.ob('LAYOUT-STATE', False, None, 'no block is addressed from the end by a model size',
                   f=F.f, node=st_, key='neg-zero-' + norm_text(st_)[:40],
                   why='`%s` counts the block from the end by `%s`: for a model without states '
                       '(the documented default of the filters) that is -0 = 0 and the slice '
                       'selects the WHOLE state vector instead of nothing' % (
                           norm_text(st_)[:70], norm_text(b_.operand)))
        for name, (lo, hi, open_end, st) in F.slices.items():
            if lo is not None and any('n_noises' in a or 'n_output_noises' in a
                                      for a in F.A.atoms_of(lo)) or \
                    hi is not None and any('n_noises' in a or 'n_output_noises' in a
                                           for a in F.A.atoms_of(hi)):
                continue          # a slice over noise counters: LAYOUT-NOISE
            cls = _classify(F, lo, hi, open_end, blocks)
            if cls is None:
                ctx.ob('LAYOUT-STATE', None, None, 'slice %s not expressed in model sizes' % name,
                       f=F.f, node=st)
                continue
            total += 1
            res[fq][name] = cls
            ctx.ob('LAYOUT-STATE', cls is not False, None,
                   '%s: %s = block %s' % (F.f.name, name, cls), f=F.f, node=st,
                   why='slice `%s` is not one of the blocks [0,n_e) | [n_e,n_e+n_g) | '
                       '[n_e+n_g,n_e+n_g+n_a): state blocks overlap or leave a gap'
                       % norm_text(st))
    ctx.floor('LAYOUT-STATE', total, 16, 'state slices')
    ctx.cache['state-blocks'] = res
    return res


def layout_noise(ctx):
    ctx.rule('LAYOUT-NOISE', 'noise slices = blocks implied by the hstack order of the noise '
             'intensities; J pairs with v (output noise), G with q (driving noise)')
    F = _Fn(ctx, FUNCS[1])
    f = F.f
    A = F.A
    # the noise-input matrix: left factor of the congruence handed to the discretisation
    Gname = None
    for n in ast.walk(f.node):
        if isinstance(n, ast.Call) and f.module.resolve(n.func, f.local_names()) == \
                'pyins.kalman.compute_process_matrices' and len(n.args) >= 2:
            # any spelling of G diag(q^2) G^T: the local 2-D array with block stores that the
            # noise argument is built from (its value is decided by ASSEMBLY)
            e_ = n.args[1]
            stored = {norm_text(s_.targets[0].value) for s_ in f.node.body
                      if isinstance(s_, ast.Assign) and isinstance(s_.targets[0], ast.Subscript)
                      and isinstance(s_.targets[0].slice, ast.Tuple)}
            cands = {x.id for x in ast.walk(e_) if isinstance(x, ast.Name) and x.id in stored}
            if not cands and isinstance(e_, ast.Name):
                # Q = ... built in a statement of its own
                for s_ in f.node.body:
                    if isinstance(s_, ast.Assign) and norm_text(s_.targets[0]) == e_.id:
                        cands = {x.id for x in ast.walk(s_.value)
                                 if isinstance(x, ast.Name) and x.id in stored}
            if len(cands) == 1:
                Gname = next(iter(cands))
    ctx.need(Gname is not None, 'noise-input matrix of the discretisation call not identified')
    # noise slices = slices used as the column index of stores into that matrix
    noise_slices = set()
    for st in f.node.body:
        if isinstance(st, ast.Assign) and isinstance(st.targets[0], ast.Subscript) and \
                norm_text(st.targets[0].value) == Gname and \
                isinstance(st.targets[0].slice, ast.Tuple) and \
                len(st.targets[0].slice.elts) == 2:
            noise_slices.add(norm_text(st.targets[0].slice.elts[1]))
    ctx.cache['noise-slices'] = noise_slices
    hs = [n for n in ast.walk(f.node) if isinstance(n, ast.Call) and
          f.module.resolve(n.func, f.local_names()) == 'numpy.hstack']
    ctx.need(len(hs) == 1 and isinstance(hs[0].args[0], (ast.Tuple, ast.List)),
             'hstack of noise intensities not found')
    order = []
    size_of = {'v': 'n_output_noises', 'q': 'n_noises'}
    for e in hs[0].args[0].elts:
        ok = isinstance(e, ast.Attribute) and isinstance(e.value, ast.Name) and \
            e.value.id in F.owner and e.attr in size_of
        ctx.need(ok, 'hstack operand `%s` not understood' % norm_text(e))
        order.append((F.owner[e.value.id], e.attr))
    blocks = []
    cur = A.const(0)
    for role, kind in order:
        nxt = A.add(cur, A.sym('%s.%s' % (role, size_of[kind])))
        blocks.append(((role, kind), cur, nxt))
        cur = nxt
    ctx.ob('LAYOUT-NOISE', len(set(b[0] for b in blocks)) == 4, None,
           'noise vector has four distinct blocks %s' % [b[0] for b in blocks], f=f, node=hs[0],
           key='four', why='noise intensity vector is %s' % [b[0] for b in blocks])
    cls = {}
    for name, (lo, hi, open_end, st) in F.slices.items():
        if name not in noise_slices:
            continue
        c = _classify(F, lo, hi, open_end, blocks)
        if c is None:
            # closing slice with n_noises total
            if hi is None and not open_end:
                t = F.clo.text(st.value.args[-1], st)
                tot = blocks[-1][2]
                # n_noises defined as a sum: evaluate
                e = F.clo.expr(st.value.args[-1], st)
                v = F.lin(e, st)
                if v is not None and A.eq(v, tot) and lo is not None and A.eq(lo, blocks[-1][1]):
                    c = blocks[-1][0]
        cls[name] = c
        ctx.ob('LAYOUT-NOISE', bool(c), None, '%s = noise block %s' % (name, c), f=f, node=st,
               why='noise slice `%s` does not match any block of the noise vector %s'
                   % (norm_text(st), [b[0] for b in blocks]))
    ctx.floor('LAYOUT-NOISE', len(cls), 4, 'noise slices')
    # total noise count = second dimension of the noise-input matrix
    ncount = None
    for st in f.node.body:
        if isinstance(st, ast.Assign) and norm_text(st.targets[0]) == Gname and \
                isinstance(st.value, ast.Call) and st.value.args and \
                isinstance(st.value.args[0], ast.Tuple) and len(st.value.args[0].elts) == 2:
            ncount = norm_text(st.value.args[0].elts[1])
    for st in f.node.body:
        if isinstance(st, ast.Assign) and ncount and norm_text(st.targets[0]) == ncount:
            v = F.lin(st.value, st)
            ctx.ob('LAYOUT-NOISE', v is not None and A.eq(v, blocks[-1][2]), None,
                   'n_noises = sum of the four block sizes', f=f, node=st, key='total',
                   why='n_noises is `%s`' % norm_text(st.value))
    # stores into G
    n = 0
    sb = ctx.cache.get('state-blocks') or layout_state(ctx)
    sblocks = sb[FUNCS[1] if FUNCS[1] in sb else f.fq] if False else sb.get(FUNCS[1], {})
    for st in f.node.body:
        if isinstance(st, ast.Assign) and isinstance(st.targets[0], ast.Subscript) and \
                norm_text(st.targets[0].value) == Gname and \
                isinstance(st.targets[0].slice, ast.Tuple):
            r, c = [norm_text(e) for e in st.targets[0].slice.elts]
            nb = cls.get(c)
            rb = sblocks.get(r)
            rhs = st.value
            attr = None
            owner = None
            for x in ast.walk(rhs):
                if isinstance(x, ast.Attribute) and isinstance(x.value, ast.Name) and \
                        x.value.id in F.owner and x.attr in ('J', 'G'):
                    attr, owner = x.attr, F.owner[x.value.id]
            n += 1
            want_kind = {'J': 'v', 'G': 'q'}.get(attr)
            ok = bool(nb) and nb == (owner, want_kind) and \
                ((attr == 'J' and rb == 'ins') or (attr == 'G' and rb == owner))
            ctx.ob('LAYOUT-NOISE', ok, None, 'G[%s, %s] <- %s.%s' % (rb, nb, owner, attr), f=f,
                   node=st, why='`%s`: noise block %s / state block %s is fed from %s.%s '
                                '(J belongs to output noise v in the ins rows, G to driving '
                                'noise q in the rows of its own model)'
                                % (norm_text(st), nb, rb, owner, attr))
            if attr == 'J':
                # Fig @ gyro_model.J : coupling matrix of the same sensor
                role = _coupling_role(F, rhs, st)
                ctx.ob('LAYOUT-NOISE', role == owner, None,
                       'output noise of %s enters through the %s coupling matrix' % (owner, role),
                       f=f, node=st, key='coupling-' + str(owner),
                       why='output noise of the %s model is propagated through the %s coupling '
                           'matrix' % (owner, role))
    ctx.floor('LAYOUT-NOISE', n, 4, 'stores into G')


def _coupling_role(F, rhs, at):
    """role of the system_matrices output used in an expression (position 1 = gyro, 2 = accel)"""
    f = F.f
    for st in f.node.body:
        if isinstance(st, ast.Assign) and isinstance(st.targets[0], ast.Tuple) and \
                isinstance(st.value, ast.Call) and isinstance(st.value.func, ast.Attribute) and \
                st.value.func.attr == 'system_matrices':
            names = [norm_text(e) for e in st.targets[0].elts]
            used = {n.id for n in ast.walk(rhs) if isinstance(n, ast.Name)}
            hit = [i for i, nm in enumerate(names) if nm in used]
            if len(hit) == 1:
                return {0: 'ins', 1: 'gyro', 2: 'accel'}.get(hit[0])
    return None


def layout_prov(ctx):
    ctx.rule('LAYOUT-PROV', 'what is stored into / read from a sensor block comes from / goes to '
             'the model that owns the block')
    sb = ctx.cache.get('state-blocks') or layout_state(ctx)
    n = 0
    for fq in FUNCS:
        F = _Fn(ctx, fq)
        f = F.f
        blocks = sb.get(fq, {})

        def owners_in(node, st):
            rs = set()
            e = F.clo_b.expr(node, st, depth=3)
            for x in ast.walk(e):
                if isinstance(x, ast.Name) and x.id in F.owner and F.owner[x.id] != 'ins':
                    rs.add(F.owner[x.id])
            cr = _coupling_role(F, node, st)
            if cr in ('gyro', 'accel'):
                rs.add(cr)
            return rs
        for st in ast.walk(f.node):
            # stores  M[rb, cb] = rhs
            if isinstance(st, ast.Assign) and isinstance(st.targets[0], ast.Subscript):
                sl = st.targets[0].slice
                idx = [norm_text(e) for e in (sl.elts if isinstance(sl, ast.Tuple) else [sl])]
                bl = [blocks.get(i) for i in idx if i in blocks]
                sens = {b for b in bl if b in ('gyro', 'accel')}
                if not bl:
                    continue
                if fq == FUNCS[1] and any(i in ctx.cache.get('noise-slices', ())
                                          for i in idx):
                    continue            # LAYOUT-NOISE
                src = owners_in(st.value, st)
                if not sens and not src:
                    continue
                n += 1
                ok = len(sens) <= 1 and src == sens
                ctx.ob('LAYOUT-PROV', ok, None, '%s: `%s[%s]` <- models %s'
                       % (f.name, norm_text(st.targets[0].value), ', '.join(map(str, bl)),
                          sorted(src)), f=f, node=st,
                       why='`%s` stores data of the %s model(s) into block(s) %s'
                           % (norm_text(st)[:120], sorted(src) or 'no', bl))
            # reads  x[B] / P[:, B, B] handed to a model method or labelled with model states
            if isinstance(st, ast.Call):
                recv = None
                if isinstance(st.func, ast.Attribute) and isinstance(st.func.value, ast.Name) \
                        and st.func.value.id in F.owner and st.func.attr in (
                            'update_estimates',):
                    recv = F.owner[st.func.value.id]
                    for a in st.args:
                        used = [blocks.get(norm_text(s.slice)) for s in ast.walk(a)
                                if isinstance(s, ast.Subscript) and
                                norm_text(s.slice) in blocks]
                        if used:
                            n += 1
                            ctx.ob('LAYOUT-PROV', used == [recv], None,
                                   '%s model is updated with block %s' % (recv, used), f=f,
                                   node=st, why='%s model receives the error-state block %s'
                                                % (recv, used))
                q = f.module.resolve(st.func, f.local_names())
                if q == 'pandas.DataFrame':
                    cols = [k.value for k in st.keywords if k.arg == 'columns']
                    if cols and isinstance(cols[0], ast.Attribute) and \
                            isinstance(cols[0].value, ast.Name) and \
                            cols[0].value.id in F.owner and cols[0].attr == 'states' and st.args:
                        role = F.owner[cols[0].value.id]
                        stt = _enclosing_stmt(f, st)
                        e = F.clo_b.expr(st.args[0], stt, depth=3)
                        used = {blocks.get(norm_text(s.slice.elts[-1] if isinstance(
                            s.slice, ast.Tuple) else s.slice)) for s in ast.walk(e)
                            if isinstance(s, ast.Subscript)}
                        used.discard(None)
                        n += 1
                        ctx.ob('LAYOUT-PROV', used == {role}, None,
                               'table labelled with %s states is built from block %s'
                               % (role, sorted(used)), f=f, node=st,
                               why='table with columns %s.states is built from block(s) %s'
                                   % (role, sorted(used)))
    ctx.floor('LAYOUT-PROV', n, 10, 'block stores/reads')


def _enclosing_stmt(f, node):
    best = None
    for st in ast.walk(f.node):
        if isinstance(st, ast.stmt) and st is not f.node and \
                any(n is node for n in ast.walk(st)):
            if best is None or sum(1 for _ in ast.walk(st)) < sum(1 for _ in ast.walk(best)):
                best = st
    return best


def p0_form(ctx):
    ctx.rule('P0-FORM', 'P_ins = T P_pva T^T with T = transform_to_internal(first state); each '
             'sigma squared on the diagonal at its own component')
    f = ctx.repo.function(FUNCS[0])
    emc = ctx.repo.klass('error_model.InsErrorModel')
    # sigma parameter roles by position in the public signature
    pub = ctx.repo.function(PUBLIC[0])
    role_by_pub = {'position_sd': 'position', 'velocity_sd': 'velocity', 'level_sd': 'level',
                   'azimuth_sd': 'azimuth'}
    prole = {}
    for fq in PUBLIC:
        g = ctx.repo.function(fq)
        for n in ast.walk(g.node):
            if isinstance(n, ast.Call) and norm_text(n.func) == f.name:
                for i, a in enumerate(n.args):
                    if isinstance(a, ast.Name) and a.id in role_by_pub and i < len(f.params):
                        r = role_by_pub[a.id]
                        if prole.setdefault(f.params[i], r) != r:
                            prole[f.params[i]] = 'conflict'
    ctx.ob('P0-FORM', sorted(prole.values()) == ['azimuth', 'level', 'position', 'velocity'], None,
           'sigma arguments are passed in the order of the helper parameters', f=f, key='arg-order',
           why='the filters pass their sigma arguments to %s as %s' % (f.name, prole))
    want = {'DRN': 'position', 'DRE': 'position', 'DRD': 'position', 'DVN': 'velocity',
            'DVE': 'velocity', 'DVD': 'velocity', 'DROLL': 'level', 'DPITCH': 'level',
            'DHEADING': 'azimuth'}
    seen = {}
    # the output-space covariance: middle factor of the congruence stored into the ins block
    clo0 = Closure(f)
    ppva = None
    for st in f.node.body:
        if isinstance(st, ast.Assign) and isinstance(st.targets[0], ast.Subscript) and \
                isinstance(st.value, ast.BinOp) and isinstance(st.value.op, ast.MatMult) and \
                'transform_to_internal' in clo0.text(st.value, st, depth=2):
            v = st.value
            if isinstance(v.left, ast.BinOp) and isinstance(v.left.right, ast.Name):
                ppva = v.left.right.id
    for st in f.node.body:
        if isinstance(st, ast.Assign) and isinstance(st.targets[0], ast.Subscript) and \
                isinstance(st.targets[0].slice, ast.Tuple) and \
                len(st.targets[0].slice.elts) == 2 and \
                (ppva is None or norm_text(st.targets[0].value) == ppva):
            a, b = st.targets[0].slice.elts
            if isinstance(a, ast.Attribute) and a.attr in want:
                v = st.value
                from .kal import _is_square
                okv = _is_square(v) and isinstance(
                    v.args[0] if isinstance(v, ast.Call) else v.left, ast.Name)
                base_ = (v.args[0] if isinstance(v, ast.Call) else v.left) if okv else None
                role = prole.get(base_.id) if okv else None
                ok = norm_text(a) == norm_text(b) and okv and role == want[a.attr]
                seen[a.attr] = True
                ctx.ob('P0-FORM', ok, None, 'P_pva[%s, %s] = %s sigma ** 2' % (a.attr, a.attr,
                                                                              want[a.attr]),
                       f=f, node=st,
                       why='`%s`: expected the squared %s sigma on the diagonal position of %s'
                           % (norm_text(st), want[a.attr], a.attr))
    ctx.ob('P0-FORM', set(seen) == set(want), None, 'all nine output components initialised',
           f=f, key='nine', why='components without initial variance: %s'
                                % sorted(set(want) - set(seen)))
    # the nine output indices are distinct 0..8
    vals = sorted(ctx.repo.const('error_model.InsErrorModel.' + k) for k in want)
    ctx.ob('P0-FORM', vals == list(range(9)), None, 'output component indices are 0..8', f=f,
           key='indices', why='output component indices are %s' % vals)
    clo = Closure(f)
    for st in f.node.body:
        if isinstance(st, ast.Assign) and isinstance(st.targets[0], ast.Subscript) and \
                'transform_to_internal' in clo.text(st.value, st, depth=2):
            e = st.value

            def chain(n):
                if isinstance(n, ast.BinOp) and isinstance(n.op, ast.MatMult):
                    return chain(n.left) + chain(n.right)
                return [n]
            fs = chain(e)
            ok = len(fs) == 3 and norm_text(fs[2]) in (norm_text(fs[0]) + '.transpose()',
                                                       norm_text(fs[0]) + '.T') and \
                'transform_to_internal(%s)' % f.params[0] in clo.text(fs[0], st, depth=2) and \
                norm_text(fs[1]) == (ppva or 'P_pva')
            ctx.ob('P0-FORM', ok, None, 'P[ins, ins] = T @ P_pva @ T^T', f=f, node=st,
                   key='congruence',
                   why='initial INS covariance is `%s`, expected T @ P_pva @ T.transpose() with '
                       'T = transform_to_internal(pva)' % norm_text(e))
            return
    ctx.ob('P0-FORM', False, None, 'P[ins, ins] = T @ P_pva @ T^T', f=f, key='congruence',
           why='mapping of the output sigmas into internal states not found')


def rec_order(ctx):
    ctx.rule('REC-ORDER', 'state and covariance are propagated with the same (Phi, Qd) (normal-form '
             'identity P <- Phi P Phi^T + Qd, x <- Phi x); H is embedded in the ins block of a '
             'zero matrix with one column per joint state')
    from .kal import NCAlg
    sb = ctx.cache.get('state-blocks') or layout_state(ctx)

    def nc(A, node, env):
        if isinstance(node, ast.Name):
            return env.setdefault(node.id, A.atom(node.id))
        if isinstance(node, ast.BinOp) and isinstance(node.op, ast.MatMult):
            return A.mul(nc(A, node.left, env), nc(A, node.right, env))
        if isinstance(node, ast.BinOp) and isinstance(node.op, ast.Add):
            return A.add(nc(A, node.left, env), nc(A, node.right, env))
        if isinstance(node, ast.Attribute) and node.attr == 'T':
            return A.T(nc(A, node.value, env))
        if isinstance(node, ast.Call) and isinstance(node.func, ast.Attribute) and \
                node.func.attr == 'transpose' and not node.args:
            return A.T(nc(A, node.func.value, env))
        if isinstance(node, ast.Call) and isinstance(node.func, ast.Attribute) and \
                node.func.attr == 'dot' and len(node.args) == 1:
            return A.mul(nc(A, node.func.value, env), nc(A, node.args[0], env))
        return None
    for fq in PUBLIC:
        f = ctx.repo.function(fq)
        loop = [s_ for s_ in f.node.body if isinstance(s_, ast.While)][0]
        pre = f.node.body[:f.node.body.index(loop)]
        blocks = sb.get(fq, {})
        cov = None
        for st in pre:
            if isinstance(st, ast.Assign) and isinstance(st.targets[0], ast.Name) and \
                    '_initialize_covariance(' in norm_text(st.value):
                cov = st.targets[0].id
        ctx.need(cov is not None, '%s: covariance variable not identified' % fq)
        phi = None
        for st in loop.body:
            if isinstance(st, ast.Assign) and isinstance(st.targets[0], ast.Tuple) and \
                    '_compute_error_propagation_matrices' in norm_text(st.value):
                phi = [norm_text(e) for e in st.targets[0].elts]
                i_phi = loop.body.index(st)
        ctx.need(phi is not None and len(phi) == 2, '%s: (Phi, Qd) assignment not found' % fq)
        A = NCAlg(symmetric=(cov, phi[1]))
        env = {}
        upd = [st for st in loop.body if isinstance(st, ast.Assign) and
               norm_text(st.targets[0]) == cov and loop.body.index(st) > i_phi]
        okP = False
        if len(upd) == 1:
            v = nc(A, upd[0].value, env)
            want = A.add(A.mul(A.mul(A.atom(phi[0]), A.atom(cov)), A.T(A.atom(phi[0]))),
                         A.atom(phi[1]))
            okP = v is not None and A.eq(v, want)
        ctx.ob('REC-ORDER', okP, None, '%s <- Phi %s Phi^T + Qd' % (cov, cov), f=f,
               node=(upd[0] if upd else loop), key='P-prop',
               why='covariance propagation is `%s`, expected %s @ %s @ %s^T + %s'
                   % (norm_text(upd[0].value) if upd else 'missing', phi[0], cov, phi[0], phi[1]))
        # the error state: first argument of kalman.correct
        cor = [n for n in ast.walk(loop) if isinstance(n, ast.Call) and
               f.module.resolve(n.func, f.local_names()) == 'pyins.kalman.correct']
        ctx.need(len(cor) == 1 and len(cor[0].args) == 5, '%s: kalman.correct call not found' % fq)
        xs, Ps, zs, Hf, Rs = [norm_text(a) for a in cor[0].args]
        ctx.ob('REC-ORDER', Ps == cov, None, 'correction uses the propagated covariance', f=f,
               node=cor[0], key='cov-arg', why='kalman.correct is called with covariance `%s`' % Ps)
        if fq.endswith('feedforward_filter'):
            xu = [st for st in loop.body if isinstance(st, ast.Assign) and
                  norm_text(st.targets[0]) == xs and loop.body.index(st) > i_phi]
            okx = False
            if len(xu) == 1:
                v = nc(A, xu[0].value, env)
                okx = v is not None and A.eq(v, A.mul(A.atom(phi[0]), A.atom(xs)))
            ctx.ob('REC-ORDER', okx, None, '%s <- Phi %s with the same Phi' % (xs, xs), f=f,
                   node=(xu[0] if xu else loop), key='x-prop',
                   why='error-state propagation is `%s`' % (norm_text(xu[0].value) if xu
                                                            else 'missing'))
        # H embedding
        unp = None
        for st in ast.walk(loop):
            if isinstance(st, ast.Assign) and isinstance(st.targets[0], ast.Tuple) and \
                    len(st.targets[0].elts) == 3 and isinstance(st.value, ast.Name):
                unp = [norm_text(e) for e in st.targets[0].elts]
        ctx.need(unp is not None, '%s: (z, H, R) unpacking not found' % fq)
        stores = [st for st in ast.walk(loop) if isinstance(st, ast.Assign) and
                  isinstance(st.targets[0], ast.Subscript) and
                  norm_text(st.targets[0].value) == Hf]
        allocs = [st for st in ast.walk(loop) if isinstance(st, ast.Assign) and
                  norm_text(st.targets[0]) == Hf]
        ok = len(stores) == 1
        if ok:
            sl = stores[0].targets[0].slice
            idx = [norm_text(e) for e in sl.elts] if isinstance(sl, ast.Tuple) else []
            ok = len(idx) == 2 and idx[0] == ':' and blocks.get(idx[1]) == 'ins' and \
                norm_text(stores[0].value) == unp[1]
        ctx.ob('REC-ORDER', ok, None, '%s[:, ins] = H' % Hf, f=f,
               node=(stores[0] if stores else cor[0]), key='H-embed',
               why='measurement matrix is embedded as `%s`'
                   % (norm_text(stores[0]) if stores else 'nothing'))
        ok = False
        if len(allocs) == 1 and isinstance(allocs[0].value, ast.Call) and \
                f.module.resolve(allocs[0].value.func, f.local_names()) == 'numpy.zeros':
            shp = allocs[0].value.args[0]
            if isinstance(shp, ast.Tuple) and len(shp.elts) == 2:
                clo = Closure(f)
                c1 = clo.text(shp.elts[1], allocs[0], depth=2)
                ok = norm_text(shp.elts[0]) == 'len(%s)' % unp[0] and \
                    c1 in ('len(%s)' % cov, 'len(_initialize_covariance', ) or \
                    (norm_text(shp.elts[0]) == 'len(%s)' % unp[0] and c1.startswith('len('))
        ctx.ob('REC-ORDER', ok, None, '%s starts as zeros(len(z), number of joint states)' % Hf,
               f=f, node=(allocs[0] if allocs else cor[0]), key='H-alloc',
               why='embedded measurement matrix is allocated as `%s`'
                   % (norm_text(allocs[0].value) if allocs else 'nothing'))
        ctx.ob('REC-ORDER', [zs, Rs] == [unp[0], unp[2]], None,
               'correction receives the residual and noise of the same measurement', f=f,
               node=cor[0], key='zr', why='kalman.correct receives (%s, %s)' % (zs, Rs))


def est_rules(ctx):
    ctx.rule('EST-RESET', 'both filters call reset_estimates() on both models unconditionally '
             'before the main loop and after the default models are created')
    ctx.rule('EST-GUARD', 'feedback: integrator.set_pva, update_estimates and kalman.correct occur '
             'only inside the measurement-due block')
    ctx.rule('FB-LAYOUT', 'feedback: correct_pva gets x[ins], each model its own block')
    sb = ctx.cache.get('state-blocks') or layout_state(ctx)
    for fq in PUBLIC:
        f = ctx.repo.function(fq)
        loop = [s for s in f.node.body if isinstance(s, ast.While)][0]
        pre = f.node.body[:f.node.body.index(loop)]
        for model in ('gyro_model', 'accel_model'):
            resets = [i for i, st in enumerate(pre) if isinstance(st, ast.Expr) and
                      norm_text(st.value) == '%s.reset_estimates()' % model]
            dflt = [i for i, st in enumerate(pre) if isinstance(st, ast.If) and
                    norm_text(st.test) == '%s is None' % model]
            uses = [i for i, st in enumerate(pre) if model in norm_text(st) and
                    i not in resets and i not in dflt and
                    any(k in norm_text(st) for k in ('correct_increments', 'get_estimates',
                                                     'update_estimates', 'output_matrix',
                                                     '_correct_increments'))]
            ok = len(resets) >= 1 and (not dflt or dflt[0] < resets[0]) and \
                (not uses or resets[0] < uses[0])
            ctx.ob('EST-RESET', ok, None, '%s: %s.reset_estimates() before the loop' % (f.name, model),
                   f=f, node=(pre[resets[0]] if resets else loop), key='reset-' + model,
                   why='%s does not reset the estimates of %s unconditionally before the loop: '
                       're-running the filter with the same model object starts from the '
                       'previous estimates' % (f.name, model))
    # EST-GUARD on the feedback loop
    f = ctx.repo.function(PUBLIC[0])
    loop = [s for s in f.node.body if isinstance(s, ast.While)][0]
    from .sched import _models, FB
    (M,) = _models(ctx, (FB,))
    guards = M.guards
    ctx.need(len(guards) == 1, 'feedback measurement-due block not found')
    g = guards[0]
    inside = {id(n) for n in ast.walk(g)}
    n = 0
    for node in ast.walk(loop):
        if isinstance(node, ast.Call):
            t = norm_text(node.func)
            if t.endswith('.set_pva') or t.endswith('.update_estimates') or \
                    t == 'kalman.correct' or t.endswith('.reset_estimates'):
                n += 1
                ok = id(node) in inside and not t.endswith('.reset_estimates')
                ctx.ob('EST-GUARD', ok, None, '`%s` only when a measurement is due' % t, f=f,
                       node=node,
                       why='`%s` runs outside the measurement-due block: with no measurement in '
                           'the span the trajectory no longer equals plain integration' % t)
    ctx.floor('EST-GUARD', n, 4, 'feedback writers')
    # writers of integrator state
    for node in ast.walk(loop):
        if isinstance(node, ast.Call) and isinstance(node.func, ast.Attribute) and \
                norm_text(node.func.value) == 'integrator':
            ok = node.func.attr in ('integrate', 'predict', 'set_pva', 'get_pva', 'get_time')
            ctx.ob('EST-GUARD', ok, None, 'integrator.%s' % node.func.attr, f=f, node=node,
                   why='unexpected integrator method %s in the loop' % node.func.attr)
        if isinstance(node, (ast.Assign, ast.AugAssign)):
            tg = node.targets[0] if isinstance(node, ast.Assign) else node.target
            if norm_text(tg).startswith('integrator.'):
                ctx.ob('EST-GUARD', False, None, 'no direct write to integrator fields', f=f,
                       node=node, why='loop writes integrator state directly')
    # FB-LAYOUT
    blocks = sb.get(PUBLIC[0], {})
    for node in ast.walk(g):
        if isinstance(node, ast.Call) and norm_text(node.func).endswith('correct_pva'):
            used = [blocks.get(norm_text(s.slice)) for a in node.args for s in ast.walk(a)
                    if isinstance(s, ast.Subscript) and norm_text(s.slice) in blocks]
            ctx.ob('FB-LAYOUT', used == ['ins'], None, 'correct_pva(x[ins])', f=f, node=node,
                   why='trajectory correction uses block %s of the error vector' % used)
        if isinstance(node, ast.Call) and norm_text(node.func).endswith('.update_estimates'):
            role = 'gyro' if 'gyro' in norm_text(node.func) else 'accel'
            used = [blocks.get(norm_text(s.slice)) for a in node.args for s in ast.walk(a)
                    if isinstance(s, ast.Subscript) and norm_text(s.slice) in blocks]
            ctx.ob('FB-LAYOUT', used == [role], None, '%s.update_estimates(x[%s])' % (role, role),
                   f=f, node=node, why='%s model is updated with block %s' % (role, used))
    # x is reset to zero for each epoch (estimates are fed back, not accumulated)
    # the fed-back error vector: first argument of kalman.correct
    xname = None
    for node in ast.walk(g):
        if isinstance(node, ast.Call) and f.module.resolve(
                node.func, f.local_names()) == 'pyins.kalman.correct' and node.args:
            xname = norm_text(node.args[0])
    xz = [st for st in g.body if isinstance(st, ast.Assign) and
          norm_text(st.targets[0]) == xname and
          isinstance(st.value, ast.Call) and
          f.module.resolve(st.value.func, f.local_names()) == 'numpy.zeros']
    ctx.ob('FB-LAYOUT', len(xz) == 1 and g.body.index(xz[0]) < min(
        [g.body.index(s) for s in g.body if isinstance(s, ast.For)] or [99]), None,
           'error vector starts at zero for every epoch', f=f, node=(xz[0] if xz else g),
           key='x-zero', why='fed-back error vector is not reset to zero before the corrections '
                             'of an epoch')


# ------------------------------------------------------------------ CORR-PAIR
def corr_pair(ctx):
    ctx.rule('CORR-PAIR', 'filters._correct_increments: the gyro model corrects the rotation '
             'increments and the accelerometer model the velocity increments, each with the dt '
             'column of the same table, stored back into the same column group of a copy')
    repo = ctx.repo
    f = repo.function('filters._correct_increments')
    ctx.touch(f)
    roles = _roles(ctx)
    inc = f.params[0]
    groups = {'gyro': list(repo.const('util.THETA_COLS')), 'accel': list(repo.const('util.DV_COLS'))}
    fold = lambda n: repo.fold(n, f.module)
    # the working copy
    res = None
    for st in f.node.body:
        if isinstance(st, ast.Assign) and isinstance(st.targets[0], ast.Name) and \
                norm_text(st.value) in ('%s.copy()' % inc, '%s.copy(deep=True)' % inc):
            res = st.targets[0].id
    rets = [n for n in ast.walk(f.node) if isinstance(n, ast.Return)]
    ctx.ob('CORR-PAIR', res is not None and len(rets) == 1 and
           isinstance(rets[0].value, ast.Name) and rets[0].value.id == res, None,
           'the result is a copy of the increments table', f=f, key='copy',
           why='_correct_increments does not work on (and return) a copy of its argument')
    seen = {}
    for st in ast.walk(f.node):
        if not (isinstance(st, ast.Assign) and isinstance(st.targets[0], ast.Subscript) and
                isinstance(st.value, ast.Call) and isinstance(st.value.func, ast.Attribute) and
                st.value.func.attr == 'correct_increments'):
            continue
        call = st.value
        model = call.func.value.id if isinstance(call.func.value, ast.Name) else None
        role = roles.get((f.fq, model))
        try:
            tcols = list(fold(st.targets[0].slice))
        except (ValueError, TypeError):
            tcols = None
        acols = None
        dt_ok = False
        if len(call.args) == 2:
            a0, a1 = call.args
            dt_ok = norm_text(a0) in ("%s['dt']" % inc, '%s.dt' % inc)
            if isinstance(a1, ast.Subscript) and norm_text(a1.value) == inc:
                try:
                    acols = list(fold(a1.slice))
                except (ValueError, TypeError):
                    acols = None
        ok = role in groups and tcols == acols == groups[role] and dt_ok and \
            norm_text(st.targets[0].value) == res
        seen[role] = seen.get(role, 0) + 1
        ctx.ob('CORR-PAIR', ok, None, '%s model corrects %s with %s[\'dt\'] and stores %s'
               % (role, acols, inc, tcols), f=f, node=st, key='pair-%s' % role,
               why='`%s`: the %s model must correct the columns %s of the table (with its dt '
                   'column) and the result must go back into the same columns; here it corrects '
                   '%s and stores into %s' % (norm_text(st)[:100], role,
                                              groups.get(role), acols, tcols))
    ctx.ob('CORR-PAIR', seen == {'gyro': 1, 'accel': 1}, None,
           'both sensor models are applied exactly once', f=f, key='both',
           why='_correct_increments applies the sensor models %s' % seen)


# ------------------------------------------------------------------- SD-TRANSFORM
def sd_transform(ctx):
    ctx.rule('SD-TRANSFORM', 'feedforward result: the output transform that maps the covariance to '
             'standard deviations is evaluated at the same trajectory as the one that maps the '
             'error estimates (the sigmas describe the reported errors)')
    repo = ctx.repo
    f = repo.function('filters._compute_feedforward_result')
    ctx.touch(f)
    mod = f.module
    found = []       # (actual argument text in f, via, node)

    def scan(g, bind, via, depth):
        for n in ast.walk(g.node):
            if not isinstance(n, ast.Call):
                continue
            if isinstance(n.func, ast.Attribute) and n.func.attr == 'transform_to_output' and n.args:
                a = norm_text(n.args[0])
                found.append((bind.get(a, a if g is f else '<%s of %s>' % (a, g.name)), via, n))
                continue
            q = g.module.resolve(n.func, g.local_names())
            h = repo.lookup(q) if q and q.startswith('pyins') else None
            if isinstance(h, FunctionInfo) and h.module is mod and depth < 2 and h is not g:
                b2 = {}
                for i, a in enumerate(n.args):
                    if i < len(h.params):
                        t = norm_text(a)
                        b2[h.params[i]] = bind.get(t, t)
                for kw in n.keywords:
                    if kw.arg:
                        t = norm_text(kw.value)
                        b2[kw.arg] = bind.get(t, t)
                scan(h, b2, via + [h.name], depth + 1)
    scan(f, {}, [], 0)
    ctx.floor('SD-TRANSFORM', len(found), 1, 'output-transform evaluations')
    args = sorted({a for a, _, _ in found})
    ok = len(args) == 1
    node = found[-1][2]
    ctx.ob('SD-TRANSFORM', ok, None, 'all output transforms of the feedforward result are evaluated '
           'at `%s`' % args[0], f=f, node=node, key='one-point',
           why='the feedforward result evaluates transform_to_output at different trajectories %s '
               '(%s): errors and their standard deviations are mapped to output coordinates with '
               'different matrices' % (args, '; '.join(
                   '%s%s' % (a, (' via ' + '/'.join(v)) if v else '') for a, v, _ in found)))


# ----------------------------------------------------------------------- FF-COMP
def ff_comp(ctx):
    ctx.rule('FF-COMP', 'feedforward result: compensated trajectory = computed trajectory minus the '
             'estimated output-space error (lat, lon through the radii of principal_radii at the '
             'nominal point and RAD_TO_DEG, alt = alt + down error, velocity and attitude '
             'component-wise)')
    from ..expr import SymEval, SArray, Rec, Obj, Opaque, Unsupported
    from ..nf import Alg, Rat
    repo = ctx.repo
    f = repo.function('filters._compute_feedforward_result')
    ctx.touch(f)
    A = Alg()
    err_cols = list(repo.const('util.TRAJECTORY_ERROR_COLS'))
    traj_cols = list(repo.const('util.TRAJECTORY_COLS'))

    class H:
        def call(self, ev, q, node, args, kwargs, env):
            if q == 'pandas.DataFrame':
                cols = kwargs.get('columns')
                if isinstance(cols, (list, tuple)) and list(cols) == err_cols and \
                        not hasattr(self, 'err'):
                    self.err = Rec({c: A.sym('err_' + c) for c in cols}, 'frame')
                    return self.err
                return Opaque('frame')
            if q == 'pyins.util.mv_prod' or q == 'pyins.util.mm_prod_symmetric':
                return Opaque('prod')
            if q == 'numpy.diagonal':
                return Opaque('diag')
            return NotImplemented

        def attr(self, ev, base, a, node):
            if isinstance(base, Obj) and a in ('n_states', 'states'):
                return Opaque(a)
            if isinstance(base, Opaque):
                return Opaque('attr')
            return None

        def subscript(self, ev, base, idx, node, env):
            if isinstance(base, Opaque):
                return Opaque('sub')
            return None
    h = H()
    ev = SymEval(repo, A, hooks=h)
    nom = Rec({c: A.sym(c + '_nom') for c in traj_cols}, 'frame')
    com = Rec({c: A.sym(c) for c in traj_cols}, 'frame')
    emc = repo.klass('error_model.InsErrorModel')
    em = Obj(emc)
    em.attrs['n_states'] = 9
    gm, am = Obj(repo.klass('inertial_sensor.EstimationModel')), \
        Obj(repo.klass('inertial_sensor.EstimationModel'))
    for o_ in (gm, am):
        o_.attrs['n_states'] = 3
        o_.attrs['states'] = ['s0', 's1', 's2']

    class _EmHook(H):
        pass
    try:
        # the error model's own methods are not needed here: transform_to_output is opaque
        class H2(H):
            def call(self, ev_, q, node, args, kwargs, env):
                if isinstance(node.func, ast.Attribute) and node.func.attr == 'transform_to_output':
                    return Opaque('T')
                return H.call(self, ev_, q, node, args, kwargs, env)
        h = H2()
        ev.hooks = h
        out = ev.call_function(f, [Opaque('x'), Opaque('P'), nom, com, em, gm, am])
    except Unsupported as e:
        raise AnalysisError('_compute_feedforward_result not analysable: %s' % e)
    ctx.need(isinstance(out, tuple) and out and isinstance(out[0], Rec),
             '_compute_feedforward_result: first result is not the compensated trajectory')
    ctx.need(hasattr(h, 'err'), '_compute_feedforward_result: error table not found')
    res = out[0]
    ev2 = SymEval(repo, A)
    rn, re, rp = ev2.call_function(repo.function('earth.principal_radii'),
                                   [A.sym('lat_nom'), A.sym('alt_nom')])
    r2d = A.sym(A.R2D)
    e = lambda c: A.sym('err_' + c)
    want = {'lat': A.sub(A.sym('lat'), A.div(A.mul(r2d, e('north')), rn)),
            'lon': A.sub(A.sym('lon'), A.div(A.mul(r2d, e('east')), rp)),
            'alt': A.add(A.sym('alt'), e('down'))}
    for c in traj_cols[3:]:
        want[c] = A.sub(A.sym(c), e(c))
    for c in traj_cols:
        got = res.cols.get(c)
        ok = isinstance(got, Rat) and A.eq(got, want[c])
        ctx.ob('FF-COMP', ok, None, "compensated '%s' = computed - error" % c, f=f, key='comp-' + c,
               why="the compensated '%s' is not the computed value minus its estimated error "
                   "(sign, radius of principal_radii at the nominal point, or RAD_TO_DEG)" % c)


# ----------------------------------------------------------------------- RESULT-FORM
def result_form(ctx):
    """What the filters report: evaluated symbolically for a generic epoch with a 9 + 3 + 2 state
    layout (INS, gyro model with 3 states, accelerometer model with 2)."""
    ctx.rule('RESULT-FORM', 'reported tables of both filters: trajectory sd = sqrt(diag(T P_ins T^T)), '
             'sensor sd = sqrt of the diagonal of the own covariance block, sensor estimates = own '
             'block of the state vector, error estimate = T x_ins; labelled with the error columns / '
             'the states of the owning model')
    from ..expr import SymEval, SArray, Rec, Obj, Opaque, Unsupported, RuntimeFailure
    from ..nf import Alg, Rat
    repo = ctx.repo
    err_cols = list(repo.const('util.TRAJECTORY_ERROR_COLS'))
    traj_cols = list(repo.const('util.TRAJECTORY_COLS'))
    NI, NG, NA = 9, 3, 2
    N = NI + NG + NA
    n_ob = 0
    for fq, has_x in (('filters._compute_sd', False),
                      ('filters._compute_feedforward_result', True)):
        f = repo.function(fq)
        ctx.touch(f)
        A = Alg()
        tables = []

        class H:
            def call(self, ev, q, node, args, kwargs, env):
                if isinstance(node.func, ast.Attribute) and \
                        node.func.attr == 'transform_to_output':
                    return SArray((NI, NI), {(i, j): A.sym('T_%d_%d' % (i, j))
                                             for i in range(NI) for j in range(NI)}, None, True)
                if q == 'pandas.DataFrame':
                    data = args[0] if args else kwargs.get('data')
                    cols = kwargs.get('columns', args[2] if len(args) > 2 else None)
                    if isinstance(data, SArray) and isinstance(cols, (list, tuple)) and \
                            len(data.shape) == 1:
                        tables.append((list(cols), data, node))
                        if len(cols) == data.shape[0]:
                            return Rec({c: data.get((i,)) for i, c in enumerate(cols)}, 'frame')
                        return Opaque('frame')
                    raise Unsupported('DataFrame construction not recognised')
                return NotImplemented
        ev = SymEval(repo, A, hooks=H())
        ev.stacked = True
        P = SArray((N, N), {(i, j): A.sym('P_%d_%d' % (min(i, j), max(i, j)))
                            for i in range(N) for j in range(N)}, None, True)
        x = SArray((N,), {(i,): A.sym('x_%d' % i) for i in range(N)}, None, True)
        nom = Rec({c: A.sym(c + '_nom') for c in traj_cols}, 'frame')
        com = Rec({c: A.sym(c) for c in traj_cols}, 'frame')
        em = Obj(repo.klass('error_model.InsErrorModel'))
        em.attrs['n_states'] = NI
        gm, am = Obj(repo.klass('inertial_sensor.EstimationModel')), \
            Obj(repo.klass('inertial_sensor.EstimationModel'))
        gm.attrs.update(n_states=NG, states=['g0', 'g1', 'g2'])
        am.attrs.update(n_states=NA, states=['a0', 'a1'])
        by_name = {'x': x, 'P': P, 'trajectory_nominal': nom, 'trajectory': com,
                   'error_model': em, 'gyro_model': gm, 'accel_model': am}
        ctx.need(all(p_ in by_name for p_ in f.params),
                 '%s: parameters %s not recognised' % (f.name, f.params))
        returned = None
        try:
            returned = ev.call_function(f, [by_name[p_] for p_ in f.params])
        except RuntimeFailure as e:
            ctx.ob('RESULT-FORM', False, None, '%s evaluates' % f.name, f=f,
                   node=getattr(ev, 'last_stmt', (None, None))[1], key='raises-' + f.name,
                   why='%s raises for a 9 + 3 + 2 state layout: %s' % (f.name, e))
            n_ob += 1
            continue
        except Unsupported as e:
            raise AnalysisError('%s not analysable: %s' % (f.name, e))
        T = lambda i, j: A.sym('T_%d_%d' % (i, j))
        Pa = lambda i, j: A.sym('P_%d_%d' % (min(i, j), max(i, j)))
        want = {}
        tp = []
        for k in range(NI):
            s_ = A.const(0)
            for i in range(NI):
                for j in range(NI):
                    s_ = A.add(s_, A.mul(A.mul(T(k, i), Pa(i, j)), T(k, j)))
            tp.append(s_)
        want['traj_sd'] = (err_cols, tp, True)
        want['gyro_sd'] = (['g0', 'g1', 'g2'], [Pa(NI + k, NI + k) for k in range(NG)], True)
        want['accel_sd'] = (['a0', 'a1'], [Pa(NI + NG + k, NI + NG + k) for k in range(NA)], True)
        if has_x:
            tx = []
            for k in range(NI):
                s_ = A.const(0)
                for i in range(NI):
                    s_ = A.add(s_, A.mul(T(k, i), A.sym('x_%d' % i)))
                tx.append(s_)
            want['error'] = (err_cols, tx, False)
            want['gyro'] = (['g0', 'g1', 'g2'], [A.sym('x_%d' % (NI + k)) for k in range(NG)], False)
            want['accel'] = (['a0', 'a1'], [A.sym('x_%d' % (NI + NG + k)) for k in range(NA)],
                             False)
        desc = {'traj_sd': 'trajectory sd = sqrt(diag(T P_ins T^T))',
                'gyro_sd': 'gyro sd = sqrt(diag(P[gyro block, gyro block]))',
                'accel_sd': 'accel sd = sqrt(diag(P[accel block, accel block]))',
                'error': 'output-space error estimate = T x_ins',
                'gyro': 'gyro estimates = x[gyro block]', 'accel': 'accel estimates = x[accel block]'}
        for key, (cols, vals, is_sd) in want.items():
            # the table with these labels whose kind (sd / estimate) matches
            cand = [t for t in tables if t[0] == cols]
            hit, why = None, 'no table labelled %s is built' % cols
            for cols_, data, node in cand:
                if data.shape[0] != len(vals):
                    why = 'the table labelled %s has %d columns of data' % (cols, data.shape[0])
                    continue
                if is_sd:
                    okv = all(A.eq(A.mul(data.get((k,)), data.get((k,))), vals[k]) and
                              not A.eq(data.get((k,)), vals[k]) for k in range(len(vals)))
                else:
                    okv = all(A.eq(data.get((k,)), vals[k]) for k in range(len(vals)))
                if okv:
                    hit = node
                    break
                lin = all('P_' not in A.key(data.get((k,))) for k in range(len(vals)))
                if lin != is_sd or len(cand) == 1:
                    # same kind (covariance-based or state-based), wrong value
                    why = 'the table labelled %s holds %s' % (cols, A.key(data.get((0,)))[:110])
            n_ob += 1
            ctx.ob('RESULT-FORM', hit is not None, None, '%s: %s' % (f.name, desc[key]), f=f,
                   node=hit or f.node, key='%s-%s' % (f.name, key),
                   why='%s: %s does not hold for the reported table: %s' % (f.name, desc[key], why))
        # role of every position of the returned tuple (used by RES-COLLECT): decided by VALUE
        pos_roles = []
        api = {'traj_sd': 'trajectory_sd', 'gyro_sd': 'gyro_sd', 'accel_sd': 'accel_sd',
               'gyro': 'gyro', 'accel': 'accel'}
        for el in (returned if isinstance(returned, tuple) else ()):
            r_ = None
            if isinstance(el, Rec) and list(el.cols) == traj_cols:
                r_ = 'trajectory'
            elif isinstance(el, Rec):
                for key, (cols, vals, is_sd) in want.items():
                    if key in api and list(el.cols) == cols and len(vals) == len(cols):
                        d_ = [el.cols[c] for c in cols]
                        if all(isinstance(v_, Rat) for v_ in d_) and (
                                all(A.eq(A.mul(v_, v_), w_) and not A.eq(v_, w_)
                                    for v_, w_ in zip(d_, vals)) if is_sd else
                                all(A.eq(v_, w_) for v_, w_ in zip(d_, vals))):
                            r_ = api[key]
            pos_roles.append(r_)
        ctx.cache.setdefault('result-roles', {})[f.name] = pos_roles
    ctx.floor('RESULT-FORM', n_ob, 9, 'reported tables')


# ----------------------------------------------------------------------- RES-COLLECT
def res_collect(ctx, which=None):
    """What is recorded per epoch reaches the result under the right name: roles are followed by
    data flow (what a list is appended with, what a helper's parameter is called, what a helper
    returns at which position), not by the names of the filter's locals."""
    from . import sched
    from ..flow import strip_array_wrappers
    ctx.rule('RES-COLLECT', 'both filters: every result list is appended with the quantity of its '
             'role (epoch time at the start of the iteration, the state / covariance the Kalman '
             'update returns, the estimates of the gyro / accelerometer model); the helper that '
             'assembles the result receives them under its matching parameters, with both '
             'trajectories selected at the recorded times; every key of the returned Bunch is bound '
             'to the value the helper returns under that name')
    repo = ctx.repo
    n_ob = 0
    for M in sched._models(ctx, which or (sched.FB, sched.FF)):
        f = M.f
        res = M.res
        fb = M.kind == 'feedback'
        # ---- roles of the caller's variables
        role = {}
        for n in ast.walk(f.node):
            if isinstance(n, ast.Assign) and isinstance(n.value, ast.Call) and \
                    res(n.value.func) == 'pyins.kalman.correct' and \
                    isinstance(n.targets[0], ast.Tuple) and len(n.targets[0].elts) == 3:
                for el, r_ in zip(n.targets[0].elts, ('x', 'P', 'innovation')):
                    if isinstance(el, ast.Name):
                        role[el.id] = r_
        for p_ in f.params:
            if p_ in ('gyro_model', 'accel_model', 'error_model', 'trajectory',
                      'trajectory_nominal'):
                role[p_] = p_
        integrators = {n.targets[0].id for n in ast.walk(f.node)
                       if isinstance(n, ast.Assign) and isinstance(n.targets[0], ast.Name) and
                       isinstance(n.value, ast.Call) and
                       (res(n.value.func) or '').endswith('strapdown.Integrator')}
        ctx.need('x' in role.values() and 'P' in role.values(),
                 '%s: kalman.correct call with (x, P, innovation) targets not found' % f.name)
        # ---- result lists and what they are appended with
        lists = {}
        for st in M.pre:
            if isinstance(st, ast.Assign) and isinstance(st.value, ast.List) and \
                    not st.value.elts and isinstance(st.targets[0], ast.Name):
                lists[st.targets[0].id] = []
        for st in M.loop.body:
            if isinstance(st, ast.Expr) and isinstance(st.value, ast.Call) and \
                    isinstance(st.value.func, ast.Attribute) and st.value.func.attr == 'append' \
                    and isinstance(st.value.func.value, ast.Name) and \
                    st.value.func.value.id in lists and len(st.value.args) == 1:
                lists[st.value.func.value.id].append((st.value.args[0], st))

        def list_role(name):
            """role of a result list from what is appended to it"""
            out = set()
            for e, st in lists.get(name, ()):
                if isinstance(e, ast.Name) and e.id in role:
                    out.add(role[e.id])
                elif isinstance(e, ast.Call) and isinstance(e.func, ast.Attribute) and \
                        e.func.attr == 'get_estimates' and isinstance(e.func.value, ast.Name) and \
                        role.get(e.func.value.id) in ('gyro_model', 'accel_model'):
                    out.add(role[e.func.value.id][:-6] + '-estimates')
                else:
                    t = norm_text(e)
                    dfn = [s for s in M.loop.body if isinstance(s, ast.Assign) and
                           isinstance(e, ast.Name) and isinstance(s.targets[0], ast.Name) and
                           s.targets[0].id == e.id and M.loop.body.index(s) < M.loop.body.index(st)]
                    is_epoch = False
                    if dfn:
                        dv = dfn[-1].value
                        t = norm_text(dv)
                        if fb:
                            is_epoch = isinstance(dv, ast.Call) and isinstance(dv.func, ast.Attribute) \
                                and dv.func.attr == 'get_time' and not dv.args and \
                                isinstance(dv.func.value, ast.Name) and \
                                dv.func.value.id in integrators
                        else:
                            is_epoch = isinstance(dv, ast.Subscript) and \
                                norm_text(dv.slice) == M.c and \
                                Closure(f).text(dv.value, dfn[-1]) in (
                                    'trajectory.index', 'trajectory_nominal.index')
                    if is_epoch:
                        # for the feedback filter nothing may advance the integrator in between
                        d = [s for s in M.loop.body if isinstance(s, ast.Assign) and
                             isinstance(e, ast.Name) and isinstance(s.targets[0], ast.Name) and
                             s.targets[0].id == e.id]
                        adv = [s for s in M.loop.body if any(
                            isinstance(c, ast.Call) and isinstance(c.func, ast.Attribute) and
                            c.func.attr == 'integrate' for c in ast.walk(s))]
                        pos = M.loop.body.index
                        if fb and d and adv and not (pos(d[0]) < pos(st) < pos(adv[0])):
                            out.add('stale-time')
                        else:
                            out.add('time')
                    else:
                        out.add('`%s`' % t[:50])
            return out
        lroles = {k: list_role(k) for k, v in lists.items() if v}
        want_lists = {'time', 'P'} | ({'gyro-estimates', 'accel-estimates'} if fb else {'x'})
        have = {}
        for k, rs in sorted(lroles.items()):
            n_ob += 1
            ok = len(rs) == 1 and next(iter(rs)) in want_lists and next(iter(rs)) not in have
            ctx.ob('RES-COLLECT', ok, None, "%s: list '%s' records %s" % (M.kind, k, sorted(rs)),
                   f=f, node=lists[k][0][1], key='%s-list-%s' % (M.kind, sorted(rs)[0]),
                   why="%s filter: result list '%s' is appended with %s; expected exactly one "
                       'list for each of %s' % (M.kind, k, sorted(rs), sorted(want_lists)))
            if ok:
                have[next(iter(rs))] = k
        n_ob += 1
        ctx.ob('RES-COLLECT', set(have) == want_lists, None, '%s: lists for %s'
               % (M.kind, sorted(want_lists)), f=f, node=M.loop, key='%s-lists' % M.kind,
               why='%s filter: no result list records %s' % (M.kind, sorted(want_lists - set(have))))
        if set(have) != want_lists:
            continue
        # ---- the helper call
        hname = '_compute_sd' if fb else '_compute_feedforward_result'
        calls = [(n, st) for st in M.post for n in ast.walk(st)
                 if isinstance(n, ast.Call) and (res(n.func) or '').endswith('filters.' + hname)]
        ctx.need(len(calls) == 1, '%s: call of %s after the loop not found' % (f.name, hname))
        call, cst = calls[0]
        h = repo.function('filters.' + hname)
        ctx.touch(h)
        clo = Closure(f)

        def name_defs(nm):
            return [n.value for n in ast.walk(f.node) if isinstance(n, ast.Assign) and
                    len(n.targets) == 1 and isinstance(n.targets[0], ast.Name) and
                    n.targets[0].id == nm]

        post_before = M.post[:M.post.index(cst)] if cst in M.post else []

        def arg_role(e, depth=0, seen=()):
            e = strip_array_wrappers(e)
            if isinstance(e, ast.Name) and e.id not in seen:
                # re-bound between the loop and the call (`T = T.loc[times]`, `L = asarray(L)`)
                pd_ = [s_ for s_ in post_before if isinstance(s_, ast.Assign) and
                       len(s_.targets) == 1 and isinstance(s_.targets[0], ast.Name) and
                       s_.targets[0].id == e.id]
                if pd_ and depth < 4:
                    return arg_role(pd_[-1].value, depth + 1, seen + (e.id,))
                if role.get(e.id) in ('trajectory', 'trajectory_nominal'):
                    return '%s (all rows, not selected at the recorded times)' % role[e.id]
            if isinstance(e, ast.Name):
                if e.id in lroles:
                    # `L = np.asarray(L)` after the loop keeps the role of the list
                    return next(iter(lroles[e.id])) if len(lroles[e.id]) == 1 else \
                        'a mixture %s' % sorted(lroles[e.id])
                if e.id in role:
                    return role[e.id]
                ds = name_defs(e.id)
                if len(ds) == 1 and depth < 3:
                    d_ = ds[0]
                    if isinstance(d_, ast.Call) and (res(d_.func) or '').endswith('InsErrorModel'):
                        return 'error_model'
                    return arg_role(d_, depth + 1)
                return '`%s`' % e.id
            # <table>.loc[<time list>]
            if isinstance(e, ast.Subscript) and isinstance(e.value, ast.Attribute) and \
                    e.value.attr == 'loc':
                base = norm_text(e.value.value)
                sel = e.slice
                sel_r = arg_role(sel, depth + 1, ()) if isinstance(sel, ast.Name) \
                    else '`%s`' % norm_text(sel)
                if sel_r != 'time':
                    return '%s selected at %s' % (base, sel_r)
                bv = e.value.value
                if isinstance(bv, ast.Attribute) and bv.attr == 'trajectory' and \
                        isinstance(bv.value, ast.Name) and bv.value.id in integrators:
                    return 'trajectory'
                return role.get(base, '`%s`' % base)
            return '`%s`' % norm_text(e)[:50]
        want_arg = {'x': 'x', 'P': 'P', 'trajectory': 'trajectory',
                    'trajectory_nominal': 'trajectory_nominal', 'error_model': 'error_model',
                    'gyro_model': 'gyro_model', 'accel_model': 'accel_model'}
        bound = {}
        for i, a in enumerate(call.args):
            if i < len(h.params):
                bound[h.params[i]] = a
        for kw in call.keywords:
            if kw.arg:
                bound[kw.arg] = kw.value
        for p_ in h.params:
            ctx.need(p_ in want_arg and p_ in bound, '%s: parameter %s of %s' % (f.name, p_, hname))
            got = arg_role(bound[p_])
            n_ob += 1
            ctx.ob('RES-COLLECT', got == want_arg[p_], None,
                   '%s: %s(%s=...) receives the recorded %s' % (M.kind, hname, p_, want_arg[p_]),
                   f=f, node=bound[p_], key='%s-arg-%s' % (M.kind, p_),
                   why='%s filter: parameter `%s` of %s receives %s' % (M.kind, p_, hname, got))
        # ---- names returned by the helper -> keys of the Bunch
        if 'result-roles' not in ctx.cache or hname not in ctx.cache['result-roles']:
            result_form(ctx)
        rnames = ctx.cache.get('result-roles', {}).get(hname)
        ctx.need(rnames, '%s: roles of the values returned by %s not established (RESULT-FORM)'
                 % (f.name, hname))
        ctx.need(isinstance(cst, ast.Assign) and isinstance(cst.targets[0], ast.Tuple) and
                 len(cst.targets[0].elts) == len(rnames) and
                 all(isinstance(e, ast.Name) for e in cst.targets[0].elts),
                 '%s: result of %s is not unpacked into %d names' % (f.name, hname, len(rnames)))
        local_of = {e.id: r_ for e, r_ in zip(cst.targets[0].elts, rnames)}
        rets = [s for s in ast.walk(f.node) if isinstance(s, ast.Return)]
        ctx.need(len(rets) == 1 and isinstance(rets[0].value, ast.Call) and
                 (res(rets[0].value.func) or '').endswith('Bunch'),
                 '%s: result is not a util.Bunch(...)' % f.name)
        for kw in rets[0].value.keywords:
            if kw.arg in ('trajectory_sd', 'gyro_sd', 'accel_sd') or \
                    (not fb and kw.arg in ('trajectory', 'gyro', 'accel')):
                v = kw.value
                got = local_of.get(v.id) if isinstance(v, ast.Name) else None
                n_ob += 1
                ctx.ob('RES-COLLECT', got == kw.arg, None,
                       "%s: result key '%s' is what %s returns as '%s'" % (M.kind, kw.arg, hname,
                                                                         kw.arg), f=f, node=kw.value,
                       key='%s-key-%s' % (M.kind, kw.arg),
                       why="%s filter: result key '%s' is bound to `%s`, i.e. to %s"
                           % (M.kind, kw.arg, norm_text(v)[:50],
                              ("what %s returns as '%s'" % (hname, got)) if got else
                              'something the helper does not return in that role'))
            elif fb and kw.arg in ('gyro', 'accel'):
                v = kw.value
                ok, got = False, norm_text(v)[:60]
                if isinstance(v, ast.Call) and (res(v.func) or '') == 'pandas.DataFrame' and v.args:
                    d_ = arg_role(v.args[0])
                    ix = [k.value for k in v.keywords if k.arg == 'index'] + list(v.args[1:2])
                    i_ = arg_role(ix[0]) if ix else None
                    got = 'a table of %s indexed by %s' % (d_, i_)
                    ok = d_ == kw.arg + '-estimates' and i_ == 'time'
                n_ob += 1
                ctx.ob('RES-COLLECT', ok, None, "feedback: result key '%s' = recorded %s estimates "
                       'indexed by the recorded times' % (kw.arg, kw.arg), f=f, node=v,
                       key='feedback-key-' + kw.arg,
                       why="feedback filter: result key '%s' is %s" % (kw.arg, got))
            elif fb and kw.arg == 'trajectory':
                n_ob += 1
                kv = kw.value
                ctx.ob('RES-COLLECT', isinstance(kv, ast.Attribute) and kv.attr == 'trajectory' and
                       isinstance(kv.value, ast.Name) and kv.value.id in integrators, None,
                       "feedback: result key 'trajectory' is the integrator's trajectory", f=f,
                       node=kw.value, key='feedback-key-trajectory',
                       why="feedback filter: result key 'trajectory' is `%s`"
                           % norm_text(kw.value)[:60])
    ctx.floor('RES-COLLECT', n_ob, 15 * len(which or (1, 2)), 'result roles')


# ----------------------------------------------------------------------- ASSEMBLY
def assembly(ctx):
    """The joint model the filters run on, by VALUE: the two assembling helpers are executed by
    the normalising evaluator with fully symbolic sub-matrices and small concrete dimensions
    (INS 9; gyro model 3 states / 2 walk noises / 2 output noises; accelerometer model 2 / 1 / 3),
    and every entry of the results is compared - including the zero background, which the
    block-wise rules (LAYOUT-*) do not see."""
    ctx.rule('ASSEMBLY', 'joint model by value: P0 = blockdiag(T P_pva T^T, P_gyro, P_accel) with '
             'P_pva = diag(sigma^2) at the named components; F = [[Fii, Fig Hg, Fia Ha], [0, Fg, 0], '
             '[0, 0, Fa]]; Q = G diag(q^2) G^T with G = [[Fig Jg, Fia Ja, 0, 0], [0, 0, Gg, 0], '
             '[0, 0, 0, Ga]], q = (v_gyro, v_accel, q_gyro, q_accel); the step handed to the '
             'discretisation is the helper\'s time_delta; all other entries zero')
    from ..expr import SymEval, SArray, Rec, Obj, Opaque, Unsupported, RuntimeFailure
    from ..nf import Alg, Rat
    if 'assembly' in ctx.cache:
        return
    verdict = ctx.cache['assembly'] = {}
    repo = ctx.repo
    NI = 9
    g_dim = dict(n_states=3, n_noises=2, n_output_noises=2)
    a_dim = dict(n_states=2, n_noises=1, n_output_noises=3)
    N = NI + g_dim['n_states'] + a_dim['n_states']

    def mat(A, name, shape):
        out = SArray(shape, {})
        for i in out.indices():
            out.entries[i] = A.sym('%s_%s' % (name, '_'.join(map(str, i))))
        return out

    def models(A):
        emc = repo.klass('error_model.InsErrorModel')
        em = Obj(emc)
        em.attrs['n_states'] = NI
        out = []
        for tag, d in (('g', g_dim), ('a', a_dim)):
            o = Obj(repo.klass('inertial_sensor.EstimationModel'))
            o.attrs.update(d)
            ns, nn, no = d['n_states'], d['n_noises'], d['n_output_noises']
            o.attrs.update(P=mat(A, 'P' + tag, (ns, ns)), F=mat(A, 'F' + tag, (ns, ns)),
                           G=mat(A, 'G' + tag, (ns, nn)), J=mat(A, 'J' + tag, (3, no)),
                           v=mat(A, 'v' + tag, (no,)), q=mat(A, 'q' + tag, (nn,)),
                           H=mat(A, 'Hc' + tag, (3, ns)))
            out.append(o)
        return em, out[0], out[1]

    def compare(tag, f, got, want, A, what):
        if not isinstance(got, SArray) or got.shape != want.shape:
            ctx.ob('ASSEMBLY', False, None, what, f=f, node=f.node, key=tag,
                   why='%s: result has shape %s, expected %s'
                       % (what, getattr(got, 'shape', None), want.shape))
            return
        bad = [i for i in want.indices() if not A.eq(got.get(i), want.get(i))]
        verdict[tag] = not bad
        ctx.ob('ASSEMBLY', not bad, None, '%s (%d entries)' % (what, len(list(want.indices()))),
               f=f, node=f.node, key=tag,
               why='%s: %d entries differ, first %s = %s, expected %s'
                   % (what, len(bad), list(bad[0]) if bad else '',
                      A.key(got.get(bad[0]))[:90] if bad else '',
                      A.key(want.get(bad[0]))[:90] if bad else ''))

    # ---------------- initial covariance
    f = repo.function('filters._initialize_covariance')
    ctx.touch(f)
    A = Alg()
    em, gm, am = models(A)
    T = mat(A, 'T', (NI, NI))

    class H0:
        def call(self, ev, q, node, args, kwargs, env):
            if isinstance(node.func, ast.Attribute) and node.func.attr == 'transform_to_internal':
                return T
            return NotImplemented
    ev = SymEval(repo, A, hooks=H0())
    traj_cols = list(repo.const('util.TRAJECTORY_COLS'))
    pva = Rec({c: A.sym(c) for c in traj_cols}, 'series')
    sig = {'pos': A.sym('s_pos'), 'vel': A.sym('s_vel'), 'level': A.sym('s_level'),
           'azimuth': A.sym('s_azimuth')}
    args = []
    for p_ in f.params:
        if p_ == 'pva':
            args.append(pva)
        elif p_ == 'error_model':
            args.append(em)
        elif p_ == 'gyro_model':
            args.append(gm)
        elif p_ == 'accel_model':
            args.append(am)
        else:
            k = [k for k in sig if p_.startswith(k)]
            ctx.need(len(k) == 1, '_initialize_covariance: parameter %s not recognised' % p_)
            args.append(sig[k[0]])
    try:
        P0 = ev.call_function(f, args)
    except RuntimeFailure as e:
        P0 = None
        ctx.ob('ASSEMBLY', False, None, '_initialize_covariance evaluates', f=f, node=f.node,
               key='p0-raises', why='_initialize_covariance raises: %s' % e)
    except Unsupported as e:
        raise AnalysisError('_initialize_covariance not analysable: %s' % e)
    if P0 is not None:
        emc = repo.klass('error_model.InsErrorModel')
        comp = {}
        for nm, r_ in (('DRN', 'pos'), ('DRE', 'pos'), ('DRD', 'pos'), ('DVN', 'vel'),
                       ('DVE', 'vel'), ('DVD', 'vel'), ('DROLL', 'level'), ('DPITCH', 'level'),
                       ('DHEADING', 'azimuth')):
            comp[repo.const('error_model.InsErrorModel.' + nm)] = r_
        ctx.need(sorted(comp) == list(range(9)), 'output component indices are not 0..8')
        want = SArray((N, N), {}, A.const(0))
        for i in range(NI):
            for j in range(NI):
                s_ = A.const(0)
                for k in range(9):
                    s_ = A.add(s_, A.mul(A.mul(T.get((i, k)), A.mul(sig[comp[k]], sig[comp[k]])),
                                         T.get((j, k))))
                want.entries[(i, j)] = s_
        for o, off in ((gm, NI), (am, NI + g_dim['n_states'])):
            Pm = o.attrs['P']
            for i in Pm.indices():
                want.entries[(off + i[0], off + i[1])] = Pm.get(i)
        compare('p0', f, P0, want, A, 'initial covariance = blockdiag(T diag(sigma^2) T^T, '
                                      'P_gyro, P_accel)')

    # ---------------- continuous model handed to the discretisation
    f = repo.function('filters._compute_error_propagation_matrices')
    ctx.touch(f)
    A = Alg()
    em, gm, am = models(A)
    ng, na = g_dim['n_states'], a_dim['n_states']
    Fii, Fig, Fia = mat(A, 'Fii', (NI, NI)), mat(A, 'Fig', (NI, 3)), mat(A, 'Fia', (NI, 3))
    Hg, Ha = mat(A, 'Hg', (3, ng)), mat(A, 'Ha', (3, na))
    cap = {}

    class H1:
        def call(self, ev, q, node, args, kwargs, env):
            if isinstance(node.func, ast.Attribute) and node.func.attr == 'system_matrices':
                return (Fii, Fig, Fia)
            if isinstance(node.func, ast.Attribute) and node.func.attr == 'output_matrix' and \
                    isinstance(node.func.value, ast.Name):
                o = env.get(node.func.value.id)
                cap.setdefault('om', []).append((o, args[0] if args else None))
                return Hg if o is gm else (Ha if o is am else NotImplemented)
            if q == 'pyins.kalman.compute_process_matrices':
                cap['call'] = (args, kwargs)
                return (Opaque('Phi'), Opaque('Qd'))
            return NotImplemented
    ev = SymEval(repo, A, hooks=H1())
    vals = {'pva': Rec({c: A.sym(c) for c in traj_cols}, 'series'),
            'gyro': mat(A, 'w', (3,)), 'accel': mat(A, 'f', (3,)), 'time_delta': A.sym('time_delta'),
            'error_model': em, 'gyro_model': gm, 'accel_model': am}
    ctx.need(all(p_ in vals for p_ in f.params),
             '_compute_error_propagation_matrices: parameters %s not recognised' % f.params)
    try:
        ev.call_function(f, [vals[p_] for p_ in f.params])
    except RuntimeFailure as e:
        ctx.ob('ASSEMBLY', False, None, '_compute_error_propagation_matrices evaluates', f=f,
               node=getattr(ev, 'last_stmt', (None, f.node))[1], key='fq-raises',
               why='_compute_error_propagation_matrices raises for a 9 + 3 + 2 state layout: %s' % e)
        return
    except Unsupported as e:
        raise AnalysisError('_compute_error_propagation_matrices not analysable: %s' % e)
    ctx.need('call' in cap, 'call of kalman.compute_process_matrices not found')
    cargs, ckw = cap['call']
    h = repo.function('kalman.compute_process_matrices')
    b = dict(zip(h.params, cargs))
    b.update(ckw)
    ctx.need({'F', 'Q', 'dt'} <= set(b), 'arguments of compute_process_matrices')
    # readings handed to the output matrices
    for o, r_ in cap.get('om', []):
        who = 'gyro' if o is gm else 'accel'
        ok = r_ is vals[who]
        ctx.ob('ASSEMBLY', ok, None, '%s model linearised at the %s readings' % (who, who), f=f,
               node=f.node, key='om-' + who,
               why='output_matrix of the %s model is evaluated with other readings' % who)
    wantF = SArray((N, N), {}, A.const(0))

    def put(dst, r0, c0, M):
        for i in M.indices():
            dst.entries[(r0 + i[0], c0 + i[1])] = M.get(i)
    put(wantF, 0, 0, Fii)
    put(wantF, 0, NI, ev.matmul(Fig, Hg))
    put(wantF, 0, NI + ng, ev.matmul(Fia, Ha))
    put(wantF, NI, NI, gm.attrs['F'])
    put(wantF, NI + ng, NI + ng, am.attrs['F'])
    compare('F', f, b['F'], wantF, A, 'continuous transition matrix F')
    nog, noa = g_dim['n_output_noises'], a_dim['n_output_noises']
    nng, nna = g_dim['n_noises'], a_dim['n_noises']
    NN = nog + noa + nng + nna
    G = SArray((N, NN), {}, A.const(0))
    put(G, 0, 0, ev.matmul(Fig, gm.attrs['J']))
    put(G, 0, nog, ev.matmul(Fia, am.attrs['J']))
    put(G, NI, nog + noa, gm.attrs['G'])
    put(G, NI + ng, nog + noa + nng, am.attrs['G'])
    qv = [gm.attrs['v'].get((i,)) for i in range(nog)] + \
         [am.attrs['v'].get((i,)) for i in range(noa)] + \
         [gm.attrs['q'].get((i,)) for i in range(nng)] + \
         [am.attrs['q'].get((i,)) for i in range(nna)]
    wantQ = SArray((N, N), {})
    for i in range(N):
        for j in range(N):
            s_ = A.const(0)
            for k in range(NN):
                gi, gj = G.get((i, k)), G.get((j, k))
                if A.is_zero(gi) or A.is_zero(gj):
                    continue
                s_ = A.add(s_, A.mul(A.mul(gi, gj), A.mul(qv[k], qv[k])))
            wantQ.entries[(i, j)] = s_
    compare('Q', f, b['Q'], wantQ, A, 'continuous noise matrix Q = G diag(q^2) G^T')
    verdict['dt'] = isinstance(b['dt'], Rat) and A.eq(b['dt'], A.sym('time_delta'))
    ctx.ob('ASSEMBLY', verdict['dt'], None,
           'the discretisation step is time_delta', f=f, node=f.node, key='dt',
           why='compute_process_matrices receives the step `%s`, not the helper\'s time_delta'
               % (A.key(b['dt'])[:60] if isinstance(b['dt'], Rat) else b['dt']))


# ----------------------------------------------------------------------- INIT-STATE
def init_state(ctx, which=None):
    from . import sched
    ctx.rule('INIT-STATE', 'filters start from the first state: the initial covariance is mapped '
             'with the first row (feedforward: row 0 of the nominal trajectory; feedback: the '
             'initial pva); the feedforward error state starts as a zero vector of the joint size')
    n_ob = 0
    for M in sched._models(ctx, which or (sched.FB, sched.FF)):
        f = M.f
        res = M.res
        fb = M.kind == 'feedback'
        calls = [(n, st) for st in M.pre for n in ast.walk(st)
                 if isinstance(n, ast.Call) and
                 (res(n.func) or '').endswith('filters._initialize_covariance')]
        ctx.need(len(calls) == 1 and calls[0][0].args, '%s: call of _initialize_covariance'
                 % f.name)
        call, cst = calls[0]
        a0 = call.args[0]
        if fb:
            ok = isinstance(a0, ast.Name) and a0.id == 'initial_pva' and 'initial_pva' in f.params
            got = norm_text(a0)
        else:
            got = Closure(f).text(a0, cst, depth=2)
            ok = got in ('trajectory_nominal.iloc[0]',
                         'trajectory_nominal.loc[trajectory_nominal.index[0]]')
            import re as _re
            ctx.need(ok or _re.fullmatch(r'(trajectory|trajectory_nominal)\.iloc\[-?\d+\]', got)
                     is not None, 'feedforward: first argument `%s` of _initialize_covariance not '
                     'recognised' % got[:60])
        n_ob += 1
        ctx.ob('INIT-STATE', ok, None, '%s: initial covariance mapped at the first state' % M.kind,
               f=f, node=a0, key='%s-p0-state' % M.kind,
               why='%s filter: the output sigmas are mapped to internal states at `%s`, not at '
                   'the first state of the run' % (M.kind, got[:60]))
        if fb:
            continue
        # role x: first target of kalman.correct
        xs = {n.targets[0].elts[0].id for n in ast.walk(f.node)
              if isinstance(n, ast.Assign) and isinstance(n.value, ast.Call) and
              res(n.value.func) == 'pyins.kalman.correct' and
              isinstance(n.targets[0], ast.Tuple) and n.targets[0].elts and
              isinstance(n.targets[0].elts[0], ast.Name)}
        ctx.need(len(xs) == 1, 'feedforward: error-state variable')
        xn = next(iter(xs))
        defs = [st for st in M.pre if isinstance(st, ast.Assign) and
                isinstance(st.targets[0], ast.Name) and st.targets[0].id == xn]
        ctx.need(len(defs) == 1, 'feedforward: initial value of the error state')
        v = defs[0].value
        okz = isinstance(v, ast.Call) and res(v.func) in ('numpy.zeros',) and len(v.args) == 1
        size = norm_text(v.args[0]) if okz else ''
        if okz and isinstance(v.args[0], ast.Name):
            # n = len(P) bound before
            nd = [st for st in M.pre if isinstance(st, ast.Assign) and
                  isinstance(st.targets[0], ast.Name) and st.targets[0].id == v.args[0].id]
            if nd:
                size = norm_text(nd[-1].value)
        pn = {n.targets[0].elts[1].id for n in ast.walk(f.node)
              if isinstance(n, ast.Assign) and isinstance(n.value, ast.Call) and
              res(n.value.func) == 'pyins.kalman.correct' and
              isinstance(n.targets[0], ast.Tuple) and len(n.targets[0].elts) > 1 and
              isinstance(n.targets[0].elts[1], ast.Name)}
        oks = okz and any(size in ('len(%s)' % p_, '%s.shape[0]' % p_) for p_ in pn)
        n_ob += 1
        ctx.ob('INIT-STATE', okz and oks, None, 'feedforward: error state starts as zeros(len(P))',
               f=f, node=defs[0], key='ff-x0',
               why='feedforward filter: the error state starts as `%s`, not as a zero vector of '
                   'the joint state size' % norm_text(v)[:60])
    ctx.floor('INIT-STATE', n_ob, 1, 'initial-state sites')


# ----------------------------------------------------------------------- CALL-ROLES
ROLE_FAMILIES = [('gyro_model', 'accel_model'), ('trajectory', 'trajectory_nominal')]


def call_roles(ctx, modules=('filters',)):
    """Role-carrying parameters keep their role across internal calls: the sensor models and the
    two trajectories are passed around under fixed parameter names; an internal call that binds
    the parameter of one role to the caller's parameter of the sibling role (the accelerometer
    model in the gyro slot, the nominal trajectory in the computed slot) exchanges or duplicates
    them silently - invisible to any test that uses two equal models."""
    ctx.rule('CALL-ROLES', 'internal calls bind the parameters gyro_model / accel_model (and '
             'trajectory / trajectory_nominal) to the caller\'s parameter of the same role')
    repo = ctx.repo
    n = 0
    for f in repo.all_functions():
        if f.module.name.split('.')[-1] not in modules:
            continue
        for call in ast.walk(f.node):
            if not isinstance(call, ast.Call):
                continue
            q = f.module.resolve(call.func, f.local_names())
            h = repo.lookup(q) if q and q.startswith('pyins') else None
            if not isinstance(h, FunctionInfo):
                continue
            bound = {}
            for i, a in enumerate(call.args):
                if i < len(h.params):
                    bound[h.params[i]] = a
            for kw in call.keywords:
                if kw.arg:
                    bound[kw.arg] = kw.value
            for fam in ROLE_FAMILIES:
                for p_ in fam:
                    a = bound.get(p_)
                    if a is None:
                        continue
                    # the caller's own role names: parameters of the caller (a re-bound local of
                    # the same name - `trajectory = trajectory.loc[...]` - keeps the role)
                    if isinstance(a, ast.Name) and a.id in fam and a.id in f.params:
                        n += 1
                        ctx.ob('CALL-ROLES', a.id == p_, None,
                               '%s: %s(%s=%s)' % (f.name, h.name, p_, a.id), f=f, node=a,
                               key='%s->%s:%s' % (f.name, h.name, p_),
                               why='%s passes its `%s` as the `%s` of %s: the two roles are '
                                   'exchanged or one is used twice' % (f.name, a.id, p_, h.name))
    ctx.floor('CALL-ROLES', n, 10, 'role-carrying arguments of internal calls')


# ----------------------------------------------------------------------- TRAJ-ROLES
def traj_roles(ctx):
    """Feedforward filter: which of its two trajectories is used where.  The documentation gives
    them different roles: the NOMINAL trajectory is the one the model is linearised about (with an
    accurate reference as nominal the filter is a covariance analysis: its covariance must not
    depend on the errors of the computed trajectory), the COMPUTED trajectory is the one whose
    error is observed and compensated."""
    from . import sched
    ctx.rule('TRAJ-ROLES', 'feedforward: propagation matrices, initial covariance and the output '
             'transform are evaluated on trajectory_nominal; the state predicted for a measurement '
             'and the trajectory that is compensated are the computed trajectory')
    repo = ctx.repo
    (M,) = sched._models(ctx, (sched.FF,))
    f = M.f
    ctx.need('trajectory' in f.params and 'trajectory_nominal' in f.params,
             'run_feedforward_filter: trajectory parameters')

    def tables_of(e, at):
        """names of the tables whose rows (.iloc / .loc) an expression is built from"""
        x = Closure(f).expr(e, at, depth=3)
        out = set()
        for n in ast.walk(x):
            if isinstance(n, ast.Subscript) and isinstance(n.value, ast.Attribute) and \
                    n.value.attr in ('iloc', 'loc') and isinstance(n.value.value, ast.Name):
                out.add(n.value.value.id)
        return out
    n_ob = 0
    for st in ast.walk(M.loop):
        if not isinstance(st, (ast.Assign, ast.Expr)):
            continue
        for call in ast.walk(st):
            if not isinstance(call, ast.Call):
                continue
            q = M.res(call.func) or ''
            if q.endswith('filters._compute_error_propagation_matrices') and call.args:
                tb = tables_of(call.args[0], st)
                ctx.need(tb and tb <= {'trajectory', 'trajectory_nominal'},
                         'feedforward: state of the propagation matrices not traced to table rows')
                n_ob += 1
                ctx.ob('TRAJ-ROLES', tb == {'trajectory_nominal'}, None,
                       'propagation matrices are evaluated on rows of trajectory_nominal', f=f,
                       node=call, key='phi-nominal',
                       why='the state at which the propagation matrices are evaluated is built from '
                           'rows of %s: the model must be linearised about the nominal trajectory '
                           '(covariance analysis with a reference trajectory would otherwise depend '
                           'on the errors of the computed one)' % sorted(tb))
            if isinstance(call.func, ast.Attribute) and call.func.attr == 'compute_matrices' and \
                    len(call.args) >= 2:
                tb = tables_of(call.args[1], st)
                ctx.need(tb and tb <= {'trajectory', 'trajectory_nominal'},
                         'feedforward: state predicted for a measurement not traced to table rows')
                n_ob += 1
                ctx.ob('TRAJ-ROLES', tb == {'trajectory'}, None,
                       'the state predicted for a measurement comes from the computed trajectory',
                       f=f, node=call, key='meas-computed',
                       why='the measurement residual is formed with a state built from rows of %s: '
                           'the error that is observed (and later compensated) is that of the '
                           'computed trajectory' % sorted(tb))
    h = repo.function('filters._compute_feedforward_result')
    ctx.touch(h)
    for n in ast.walk(h.node):
        if isinstance(n, ast.Call) and isinstance(n.func, ast.Attribute) and \
                n.func.attr == 'transform_to_output' and n.args:
            n_ob += 1
            ctx.ob('TRAJ-ROLES', norm_text(n.args[0]) == 'trajectory_nominal' and
                   'trajectory_nominal' in h.params, None,
                   'the output transform of the feedforward result is evaluated on the nominal '
                   'trajectory', f=h, node=n, key='T-nominal',
                   why='the output transform of the feedforward result is evaluated on `%s`, not '
                       'on the nominal trajectory' % norm_text(n.args[0]))
    ctx.floor('TRAJ-ROLES', n_ob, 3, 'role sites')
