"""Symbolic model of scipy.spatial.transform.Rotation for the normalising evaluator.

Library semantics (scipy documentation), the only facts taken on trust here:
  * elementary active rotations Rx, Ry, Rz (right-handed);
  * from_euler(seq, angles): lower-case seq = extrinsic, R = R_s3(a3) R_s2(a2) R_s1(a1);
    upper-case seq = intrinsic, R = R_S1(a1) R_S2(a2) R_S3(a3); degrees flag;
  * from_rotvec(v).as_matrix() = exp(skew(v)) = I + skew(v) + skew(v)^2/2 + ...
  * as_euler is the inverse of from_euler with the same sequence (carried symbolically:
    as_euler(M) is an `EulerOf` object and from_euler(EulerOf(M)) returns M).
"""
from .expr import SArray, Opaque, Unsupported


class RotObj:
    def __init__(self, mat):
        self.mat = mat


class EulerOf:
    """Euler angles of a rotation matrix, kept abstract."""
    def __init__(self, mat, seq, degrees):
        self.mat, self.seq, self.degrees = mat, seq, degrees


def elementary(ev, axis, ang):
    A = ev.A
    c, s = A.cos(ang), A.sin(ang)
    o, z = A.const(1), A.const(0)
    n = A.neg(s)
    rows = {'x': [[o, z, z], [z, c, n], [z, s, c]],
            'y': [[c, z, s], [z, o, z], [n, z, c]],
            'z': [[c, n, z], [s, c, z], [z, z, o]]}[axis]
    return SArray((3, 3), {(i, j): rows[i][j] for i in range(3) for j in range(3)})


def from_euler(ev, seq, angles, degrees):
    if isinstance(angles, EulerOf):
        if angles.seq != seq or bool(angles.degrees) != bool(degrees):
            raise Unsupported('Euler convention mismatch %s/%s' % (angles.seq, seq))
        return RotObj(angles.mat)
    A = ev.A
    if isinstance(angles, SArray):
        if angles.shape != (len(seq),):
            raise Unsupported('from_euler angles shape %s for %s' % (angles.shape, seq))
        angs = [angles.get((i,)) for i in range(len(seq))]
        sample = angles.sample
    elif isinstance(angles, (list, tuple)):
        angs = [ev.rat(a) for a in angles]
        sample = False
    else:
        angs = [ev.rat(angles)]
        sample = False
    if len(angs) != len(seq):
        raise Unsupported('from_euler: %d angles for %s' % (len(angs), seq))
    if degrees is True:
        angs = [A.deg2rad(a) for a in angs]
    elif degrees not in (False, None):
        raise Unsupported('degrees flag unknown')
    mats = [elementary(ev, ch.lower(), a) for ch, a in zip(seq, angs)]
    if seq.islower():
        mats = list(reversed(mats))
    elif not seq.isupper():
        raise Unsupported('mixed-case sequence')
    m = mats[0]
    for nxt in mats[1:]:
        m = ev.matmul(m, nxt)
    m.sample = sample
    return RotObj(m)


def exp_rotvec(ev, v):
    """I + S + S^2/2 (+ S^3/6): enough under first/second-order truncation."""
    A = ev.A
    if not (isinstance(v, SArray) and v.shape == (3,)):
        raise Unsupported('from_rotvec argument')
    g = lambda i: v.get((i,))
    z = A.const(0)
    S = SArray((3, 3), {(0, 0): z, (0, 1): A.neg(g(2)), (0, 2): g(1),
                        (1, 0): g(2), (1, 1): z, (1, 2): A.neg(g(0)),
                        (2, 0): A.neg(g(1)), (2, 1): g(0), (2, 2): z})
    I = SArray((3, 3), {(i, j): A.const(1 if i == j else 0) for i in range(3)
                        for j in range(3)})
    S2 = ev.matmul(S, S)
    S3 = ev.matmul(S2, S)
    half = A.div(A.const(1), A.const(2))
    sixth = A.div(A.const(1), A.const(6))
    out = ev.emap(A.add, I, S)
    out = ev.emap(A.add, out, ev.emap(lambda x: A.mul(half, x), S2))
    out = ev.emap(A.add, out, ev.emap(lambda x: A.mul(sixth, x), S3))
    return out


def _closed_form_convention(ev, which='mat_to_rph'):
    """None if transform.<which> goes through scipy's as_euler/from_euler (then it is inlined);
    otherwise the (sequence, degrees) convention of its partner, default ('xyz', True)."""
    import ast as _ast
    cache = ev.repo.__dict__.setdefault('_euler_conv_cache', {})
    if which in cache:
        return cache[which]
    try:
        f = ev.repo.function('transform.' + which)
        partner = ev.repo.function('transform.' + ('mat_from_rph' if which == 'mat_to_rph'
                                                     else 'mat_to_rph'))
    except Exception:
        cache[which] = None
        return None
    own = 'as_euler' if which == 'mat_to_rph' else 'from_euler'
    if any(isinstance(n, _ast.Attribute) and n.attr == own for n in _ast.walk(f.node)):
        cache[which] = None
        return None
    conv = ('xyz', True)
    for n in _ast.walk(partner.node):
        if isinstance(n, _ast.Call) and isinstance(n.func, _ast.Attribute) and \
                n.func.attr in ('from_euler', 'as_euler') and n.args and \
                isinstance(n.args[0], _ast.Constant) and isinstance(n.args[0].value, str):
            deg = False
            pos = 2 if n.func.attr == 'from_euler' else 1
            if len(n.args) > pos and isinstance(n.args[pos], _ast.Constant):
                deg = n.args[pos].value
            for kw in n.keywords:
                if kw.arg == 'degrees' and isinstance(kw.value, _ast.Constant):
                    deg = kw.value.value
            conv = (n.args[0].value, deg)
    cache[which] = conv
    return conv


class RotHooks:
    """Mix-in for evaluator hooks."""
    ROT = 'scipy.spatial.transform.Rotation'

    def call(self, ev, q, node, args, kwargs, env):
        if q == self.ROT + '.from_euler':
            seq = args[0]
            deg = kwargs.get('degrees', args[2] if len(args) > 2 else False)
            return from_euler(ev, seq, args[1], deg)
        if q == self.ROT + '.from_matrix':
            return RotObj(args[0])
        if q == self.ROT + '.from_rotvec':
            return RotObj(exp_rotvec(ev, args[0]))
        if q == 'pyins.transform.mat_to_rph' and args and isinstance(args[0], SArray):
            # a closed-form mat_to_rph is used through its summary "inverse of mat_from_rph",
            # which rule EULER-INV establishes (assume-guarantee: the properties that rely on it
            # run EULER-INV); the scipy form is inlined as before
            conv = _closed_form_convention(ev)
            if conv is not None:
                return EulerOf(args[0], conv[0], conv[1])
        if q == 'pyins.transform.mat_from_rph' and args and isinstance(args[0], EulerOf):
            if _closed_form_convention(ev, 'mat_from_rph') is not None:
                return args[0].mat
        return NotImplemented

    def attr(self, ev, base, a, node):
        if isinstance(base, RotObj):
            if a == 'as_matrix':
                return lambda *x, **k: base.mat
            if a == 'as_euler':
                def as_euler(seq, degrees=False):
                    return EulerOf(base.mat, seq, degrees)
                return as_euler
            if a == 'inv':
                return lambda: RotObj(ev.transpose(base.mat))
        return None
