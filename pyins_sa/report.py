"""Obligations, findings, known-findings matching, evidence and exit codes."""
import ast
import json
import os
import time

from .model import AnalysisError, Repo, TypeEnv, norm_text

VERIF = os.path.dirname(os.path.dirname(os.path.abspath(__file__)))


class Finding:
    def __init__(self, rule, file, func, key, msg, line):
        self.rule, self.file, self.func, self.key = rule, file, func, key
        self.msg, self.line = msg, line

    def ident(self):
        return (self.rule, self.file, self.func, self.key)

    def as_dict(self):
        return {'rule': self.rule, 'file': self.file, 'function': self.func,
                'key': self.key, 'line': self.line, 'why': self.msg}

    def text(self):
        return '%s:%s %s -- %s -- %s -- %s' % (self.file, self.line, self.func,
                                              self.rule, self.key, self.msg)


#: rules that read the shape of a whole function; their findings are withheld in a function
#: whose body contains inlined helper code (see Ctx.ob)
WHOLE_SHAPE_RULES = ('SCHED-', 'Q-PSD', 'P0-FORM', 'LAYOUT-', 'BUF-', 'CARRIER', 'KERNEL-VIA',
                     'TAIL-SLICE', 'PREDICT-EFF', 'DEF-PATH', 'KEY-REBIND', 'STEP-BOUND',
                     'RES-COLLECT', 'RESULT-FORM', 'ASSEMBLY', 'INIT-STATE', 'AVG-RATE',
                     'INTERP-', 'EST-', 'REC-ORDER', 'CORR-PAIR', 'SD-TRANSFORM', 'FF-COMP',
                     'VL-', 'KAL-', 'PROP-CONSIST', 'SIM-', 'DIFF-', 'RES-', 'SM-')


class Ctx:
    def __init__(self, prop, tier='quick', root=None, write_evidence=True):
        self.prop = prop
        self.tier = tier
        self.root = root or os.environ.get('PYINS_REPO', '/repo')
        self.write_evidence = write_evidence
        self.t0 = time.time()
        self.repo = Repo(self.root)
        self._types = None
        self.obligations = []      # dicts
        self.findings = []
        self.unreadable = []      # findings withheld because the function calls opaque new helpers
        self.infos = []
        self.rules_run = []
        self.functions = set()
        self.assumptions = []
        self.undecided = []
        self.decided = []
        self.extra = {}
        self.cache = {}

    @property
    def types(self):
        if self._types is None:
            self._types = TypeEnv(self.repo)
        return self._types

    # ------------------------------------------------------------- recording
    def rule(self, name, text):
        self.rules_run.append({'rule': name, 'statement': text})

    def touch(self, f):
        self.functions.add(f.fq if hasattr(f, 'fq') else str(f))

    def ob(self, rule, ok, site, what, f=None, node=None, key=None, why='',
           definite=True):
        """Record one rule instance.  ok=True: holds; ok=False: violation;
        ok=None: undecidable here (contradiction-only domains) -> not counted as
        definite and never a violation."""
        line = getattr(node, 'lineno', 0) if node is not None else 0
        file = f.file if f is not None and hasattr(f, 'file') else (site or '')
        func = f.qualname if f is not None and hasattr(f, 'qualname') else ''
        if f is not None:
            self.touch(f)
        if key is None:
            key = norm_text(node) if node is not None else what
        key = ' '.join(key.split())
        if len(key) > 300:
            key = key[:300]
        self.obligations.append({'rule': rule, 'site': '%s:%s %s' % (file, line, func),
                                 'what': what, 'verdict':
                                 'holds' if ok else ('unknown' if ok is None else 'VIOLATED'),
                                 'definite': bool(definite and ok is not None)})
        if ok is False:
            opaque = set(self._opaque_helpers(f))
            if not rule.startswith(WHOLE_SHAPE_RULES):
                # rules that judge a local construct (and follow helpers themselves where they
                # need to) are as reliable as ever; only the rules that read the shape of a
                # whole function (loop structure, stage order, buffer arithmetic) are not, on a
                # function restructured around helpers
                opaque = set()
            if opaque:
                # the function (still) calls helpers that did not exist on the pinned tree and
                # could not be read in place: what a structural rule misses here may simply be
                # inside them, so a finding is not reliable - the run ends without a verdict
                self.obligations[-1]['verdict'] = 'unknown'
                self.obligations[-1]['definite'] = False
                self.unreadable.append('%s -- %s: %s calls the helper(s) %s introduced after the '
                                       'pinned tree, which the program model could not inline'
                                       % (rule, key[:60], func, ', '.join(sorted(opaque))))
                return None
            self.findings.append(Finding(rule, file, func, key, why or what, line))
        return ok

    def _opaque_helpers(self, f):
        if f is None or not hasattr(f, 'node'):
            return ()
        cache = self.__dict__.setdefault('_opaque_cache', {})
        k = id(f.node)
        if k not in cache:
            import ast as _ast
            from .inline import PINNED_PRIVATE
            mod = getattr(f, 'module', None)
            known = set()
            if mod is not None:
                known |= set(getattr(mod, 'functions', {}))
                for ci in getattr(mod, 'classes', {}).values():
                    known |= set(getattr(ci, 'methods', {}))
            out = set()
            for n in _ast.walk(f.node):
                if isinstance(n, _ast.Call):
                    fn = n.func
                    nm = fn.id if isinstance(fn, _ast.Name) else (
                        fn.attr if isinstance(fn, _ast.Attribute) and
                        isinstance(fn.value, _ast.Name) and fn.value.id == 'self' else None)
                    if nm and nm.startswith('_') and not nm.startswith('__') and \
                            nm not in PINNED_PRIVATE and nm in known:
                        out.add(nm)
            if getattr(f.node, '_inlined_helpers', False):
                # helpers were read in place: the function has been restructured since the
                # pinned tree, and a structural rule that misses its construct in the new shape
                # has not shown that the construct is absent
                out.add('(helper code read in place)')
            cache[k] = out
        return cache[k]

    def info(self, rule, msg):
        self.infos.append({'rule': rule, 'info': msg})

    def floor(self, rule, count, minimum, what):
        if count < minimum:
            raise AnalysisError('coverage floor: rule %s found %d %s, expected at least %d'
                                % (rule, count, what, minimum))

    def need(self, cond, msg):
        if not cond:
            raise AnalysisError(msg)

    def single_exit(self, f, allow=0):
        """Structural rules judge one path through a function.  A return statement they do not
        account for (an early exit / shortcut branch) is a path nobody analysed: the run is
        analysis-broken (exit 2), not a pass."""
        import ast as _ast
        body = f.node.body
        last = body[-1] if body else None
        nested = set()
        for n in _ast.walk(f.node):
            if isinstance(n, (_ast.FunctionDef, _ast.Lambda)) and n is not f.node:
                nested |= {id(x) for x in _ast.walk(n)}
        extra = [n for n in _ast.walk(f.node) if isinstance(n, _ast.Return) and n is not last
                 and id(n) not in nested]
        if len(extra) != allow:
            raise AnalysisError('%s has %d return statement(s) besides its final one (line %s): '
                                'an exit path the structural rules do not model'
                                % (f.qualname, len(extra),
                                   ', '.join(str(n.lineno) for n in extra)))

    # ------------------------------------------------------------- finishing
    def finish(self):
        kf_path = os.path.join(VERIF, 'known_findings.json')
        known = []
        if os.path.exists(kf_path):
            with open(kf_path) as fh:
                known = json.load(fh).get('open', [])
        uniq = {}
        for fd in self.findings:
            uniq.setdefault(fd.ident(), fd)
        fp = getattr(self, 'findings_path', None)
        if fp:
            with open(fp, 'w') as fh:
                json.dump(sorted(list(k) for k in uniq), fh)
        new, listed = [], []
        for fd in uniq.values():
            hit = None
            for k in known:
                if k.get('property') == self.prop and k.get('rule') == fd.rule and \
                        k.get('file') == fd.file and k.get('function') == fd.func and \
                        ' '.join(k.get('key', '').split()) == fd.key:
                    hit = k
                    break
            (listed if hit else new).append((fd, hit))
        for fd, k in listed:
            print('KNOWN-FINDING: property=%s %s [%s]' % (self.prop, k.get('what', fd.msg),
                                                         fd.text()))
        n_ob = len(self.obligations)
        n_def = sum(1 for o in self.obligations if o['definite'])
        n_ok = sum(1 for o in self.obligations if o['verdict'] == 'holds')
        wall = time.time() - self.t0
        print('%s tier=%s: %d rule instances over %d functions, %d definite, %d hold, '
              '%d violated (%d known), %.2fs' % (self.prop, self.tier, n_ob,
                                                 len(self.functions), n_def, n_ok,
                                                 len(uniq), len(listed), wall))
        for r in self.rules_run:
            cnt = sum(1 for o in self.obligations if o['rule'] == r['rule'])
            print('  rule %-18s %3d instances' % (r['rule'], cnt))
        rc = 0
        if new:
            rc = 1
            outdir = os.path.join(VERIF, 'out')
            os.makedirs(outdir, exist_ok=True)
            rp = os.path.join(outdir, '%s.violations.json' % self.prop)
            if self.write_evidence:
                with open(rp, 'w') as fh:
                    json.dump({'property': self.prop, 'repo': self.root,
                               'violations': [fd.as_dict() for fd, _ in new]}, fh, indent=1)
            print('VIOLATION property=%s replay=%s' % (self.prop, rp))
            for fd, _ in new:
                print('  ' + fd.text())
        if self.write_evidence:
            self._write_evidence(n_ob, n_def, n_ok, len(uniq), len(listed), wall)
        return rc

    def _write_evidence(self, n_ob, n_def, n_ok, n_viol, n_known, wall):
        samples = []
        seen_rules = set()
        for o in self.obligations:
            if o['rule'] not in seen_rules or len(samples) < 12:
                if sum(1 for s in samples if s['rule'] == o['rule']) < 3:
                    samples.append(o)
                    seen_rules.add(o['rule'])
        distinct = len({(o['rule'], o['site'], o['what']) for o in self.obligations
                        if o['definite']})
        ev = {
            'property_id': self.prop,
            'tier': self.tier,
            'seed': int(os.environ.get('VERIF_SEED', '0') or 0),
            'level': 'other',
            'coverage': {
                'explanation': ('Static analysis of /repo/pyins source (stdlib ast; pyins is '
                                'never imported or executed). Decided clauses: '
                                + '; '.join(self.decided) + '. NOT decided (runtime '
                                'quantities): ' + '; '.join(self.undecided) + '.'),
                'obligations': n_ob,
                'discharged': n_ok,
                'evaluations': max(n_ob, 1),
                'distinct_nontrivial': distinct,
                'rule': ('one evaluation = one rule instance (a code site or a pair of '
                         'sites checked against a rule); distinct_nontrivial = distinct '
                         'instances whose verdict was definite (both sides known)'),
                'samples': samples[:40],
                'rules': self.rules_run,
                'instances_per_rule': {r['rule']: sum(1 for o in self.obligations
                                                      if o['rule'] == r['rule'])
                                       for r in self.rules_run},
                'functions_analysed': sorted(self.functions),
                'modules_parsed': sorted(m.relpath for m in self.repo.modules.values()),
                'infos': self.infos[:60],
                'known_findings_matched': n_known,
                'exhaustive': True,
            },
            'assumptions': self.assumptions,
            'wall_s': round(wall, 3),
            'violations': n_viol - n_known,
        }
        ev['coverage'].update(self.extra)
        d = os.path.join(VERIF, 'evidence')
        os.makedirs(d, exist_ok=True)
        with open(os.path.join(d, '%s.json' % self.prop), 'w') as fh:
            json.dump(ev, fh, indent=1, default=str)
