"""Self-test corpus: source variants of the *current* tree on which the rules are re-run
(thorough tier).  'fire' variants break a property in a way that still imports (most also
pass the 55 tests); the check must report at least one finding the base run does not
have.  'silent' variants are behaviour-preserving edits; the findings must equal the base
run's.  A variant whose anchor text no longer exists is recorded as skipped.

pyins is never executed: a variant is a text edit of a scratch copy of pyins/*.py and a
re-run of the static rules on that copy.
"""
import json
import os
import shutil
import subprocess
import sys
import tempfile
from concurrent.futures import ThreadPoolExecutor

V = []


def v(props, kind, file, old, new, note='', every=False):
    V.append(dict(props=props.split(), kind=kind, file=file, old=old, new=new, note=note,
                  every=every))


def vp(props, kind, patch, note=''):
    """a variant given as a unified diff (path relative to /verif): larger refactorings"""
    V.append(dict(props=props.split(), kind=kind, file=patch, old='(patch)', new=patch, note=note,
                  every=False, patch=patch))


K = '_numba_integrate.py'
# ------------------------------------------------------------------ kernel / C01 C16 C17
v('C01 C04', 'fire', K, 'rho2 = -V1 / rn', 'rho2 = V1 / rn', 'transport-rate sign')
v('C01 C16', 'fire', K, '(1 - 2 * alt / earth.A)', '(1 - alt / earth.A)', 'compiled gravity edited alone')
v('C01', 'fire', K, 'rho1 / cos_lat * dt', 'rho1 * dt', 'dropped 1/cos(lat)')
v('C01', 'fire', K, 'np.dot(dBn, C, mat_nb[j + 1])', 'np.dot(C, dBn, mat_nb[j + 1])', 'attitude composition order')
v('C01', 'fire', K, '- 0.5 * (chi2 * dv3 - chi3 * dv2)', '- 0.5 * (chi2 * dv3 + chi3 * dv2)', 'one cross-product sign')
v('C01', 'fire', K, 'xi[0] = -chi1 * dt', 'xi[0] = chi1 * dt', 'navigation-frame rotation sign')
v('C01', 'fire', K, 'lla[j + 1, 0] = lla[j, 0] - transform.RAD_TO_DEG * rho2 * dt',
  'lla[j + 1, 0] = lla[j, 0] - rho2 * dt', 'dropped RAD_TO_DEG')
v('C01', 'fire', K, '+ (chi3 + Omega3) * V2', '+ (chi3 - Omega3) * V2', 'Coriolis coefficient')
v('C01 C02', 'fire', K, 'V1 = velocity_n[j, 0]', 'V1 = velocity_n[j + 1, 0]', 'reads the row being written')
v('C01', 'silent', K, 'cos_lat = np.sqrt(1 - sin_lat * sin_lat)', 'cos_lat = np.cos(lat * transform.DEG_TO_RAD)')
v('C01', 'silent', K, 're = earth.A / x ** 0.5', 're = earth.A / np.sqrt(x)')
v('C01', 'silent', K, 'tan_lat = sin_lat / cos_lat', 'tan_lat = np.tan(lat * transform.DEG_TO_RAD)')
v('C17 C01', 'fire', K, 'if norm2 > 1e-6', 'if norm2 > 1e-2', 'branch threshold too large')
v('C17', 'fire', K, 'norm4 / 120', 'norm4 / 100', 'Taylor coefficient')
v('C17 C01', 'fire', K, 'mat[0, 1] = k2 * rv[0] * rv[1] - k1 * rv[2]', 'mat[0, 1] = k2 * rv[0] * rv[1] + k1 * rv[2]', 'skew sign')
v('C17', 'fire', K, 'k2 = (1 - np.cos(norm)) / norm2', 'k2 = (1 - np.cos(norm)) / norm', 'closed-form coefficient')
v('C17', 'silent', K, 'cos = 1 - norm2 / 2 + norm4 / 24', 'cos = 1 - norm2 * (0.5 - norm2 / 24)', 'Horner form')
_VD_OLD = ('        if with_altitude:\n'
           '            velocity_n[j + 1, 2] = V3 + dv3 + (- (chi1 + Omega1) * V2\n'
           '                                               + (chi2 + Omega2) * V1\n'
           '                                               - 0.5 * (chi1 * dv2 - chi2 * dv1)\n'
           '                                               + gravity(lat, alt - 0.5 * V3 * dt)\n'
           '                                               ) * dt\n'
           '        else:\n'
           '            velocity_n[j + 1, 2] = 0.0\n')
_VD_NEW = ('        velocity_n[j + 1, 2] = V3 + dv3 + (- (chi1 + Omega1) * V2\n'
           '                                           + (chi2 + Omega2) * V1\n'
           '                                           - 0.5 * (chi1 * dv2 - chi2 * dv1)\n'
           '                                           + gravity(lat, alt - 0.5 * V3 * dt)\n'
           '                                           ) * dt\n')
v('C13', 'fire', K, [_VD_OLD, '        lla[j + 1, 2] = lla[j, 2] - V3 * dt\n'],
  [_VD_NEW, '        lla[j + 1, 2] = lla[j, 2] - V3 * dt\n        if not with_altitude:\n            velocity_n[j + 1, 2] = 0.0\n'],
  'seeded C13 round 5: vertical velocity clamped after the trapezoid average was taken')
v('C13 C01', 'silent', K, [_VD_OLD], [_VD_NEW + '        if not with_altitude:\n            velocity_n[j + 1, 2] = 0.0\n'],
  'clamped directly after the store, before any read: same values')
_FAST = ('    if norm2 %s:\n        mat[:, :] = 0.0\n        mat[0, 0] = 1.0\n        mat[1, 1] = 1.0\n'
         '        mat[2, 2] = 1.0\n        return\n    if norm2 > 1e-6:')
v('C17 C01', 'fire', K, '    if norm2 > 1e-6:', _FAST % '< 1e-14',
  'round-4 seed: identity fast path drops rotations below 1e-7 rad')
v('C17 C01', 'silent', K, '    if norm2 > 1e-6:', _FAST % '== 0', 'exact fast path for the zero rotation')
v('C17', 'fire', K, 'norm2 = np.sum(rv ** 2)', 'norm2 = np.sum(rv ** 3)', 'survey: tested local is not the squared norm')
v('C17', 'fire', K, 'if norm2 > 1e-6:', 'if norm2 < 1e-6:', 'arms exchanged: closed form at rv = 0')
v('C17', 'silent', K, 'if norm2 > 1e-6:', 'if not norm2 <= 1e-6:')
v('C17', 'silent', K, 'norm = norm2 ** 0.5', 'norm = np.sqrt(norm2)')
v('C17', 'fire', K, '    mat[2, 1] = k2 * rv[2] * rv[1] + k1 * rv[0]\n', '', 'one entry never written')
v('C17', 'fire', 'filters.py', "rot_1 = Rotation.from_euler('xyz', first[RPH_COLS], True)",
  "rot_1 = Rotation.from_euler('XYZ', first[RPH_COLS], True)", 'intrinsic sequence at one site')
v('C17', 'fire', 'transform.py', "return Rotation.from_matrix(mat).as_euler('xyz', degrees=True)",
  "return Rotation.from_matrix(mat).as_euler('xyz')", 'degrees flag dropped')
# ------------------------------------------------------------------ increments C15
S = 'strapdown.py'
v('C15 C01', 'fire', S, '    gyro = imu[GYRO_COLS].values\n    accel = imu[ACCEL_COLS].values    \n', '    gyro, accel = np.hsplit(imu.values, 2)\n', 'seeded C15 round 5: readings taken by column position')
v('C02 C09', 'fire', S, "        return self._integrate(increment.to_frame().transpose(), 'predict').iloc[0]", "        if increment['dt'] == 0:\n            return self.get_pva().rename(increment.name)\n        return self._integrate(increment.to_frame().transpose(), 'predict').iloc[0]", 'seeded C02 round 5: zero-step fast path of predict returns the stored row')
v('C02', 'silent', S, "        return self._integrate(increment.to_frame().transpose(), 'predict').iloc[0]", "        row = self._integrate(increment.to_frame().transpose(), 'predict')\n        return row.iloc[0]")
v('C15 C01', 'fire', S, 'coning = np.cross(gyro[:-1], gyro[1:]) / 12', 'coning = np.cross(gyro[:-1], gyro[1:]) / 6')
v('C15', 'fire', S, 'np.cross(accel[:-1], gyro[1:])) / 12', 'np.cross(gyro[1:], accel[:-1])) / 12', 'swapped cross operands')
v('C15', 'fire', S, 'index=imu.index[1:]', 'index=imu.index[:-1]')
v('C15', 'fire', S, 'gyro_increment = (a_gyro + 0.5 * b_gyro) * dt', 'gyro_increment = (a_gyro + b_gyro) * dt')
v('C15', 'fire', S, 'np.hstack((dt, theta, dv))', 'np.hstack((dt, dv, theta))')
v('C15', 'fire', S, '0.5 * np.cross(gyro_increment, accel_increment)', '0.25 * np.cross(gyro_increment, accel_increment)')
v('C15', 'fire', S, 'dv = accel_increment + sculling + 0.5 * np.cross(gyro_increment, accel_increment)',
  'dv = accel_increment + sculling + 0.5 * np.cross(accel_increment, gyro_increment)')
v('C15', 'silent', S, 'a_gyro = gyro[:-1]', 'a_gyro = gyro[:-1].copy()')
# ------------------------------------------------------------------ integrator C02 C13
v('C02', 'fire', S, 'required_size = n_data + n_readings', 'required_size = n_data + n_readings - 1', 'buffer overrun by one row')
v('C02', 'fire', S, '            self.velocity_n.resize((new_size, 3), refcheck=False)\n', '', 'one buffer not resized')
v('C02', 'fire', S, '        self.mat_nb[i] = transform.mat_from_rph(pva[RPH_COLS])\n        self.trajectory.iloc[-1] = pva',
  '        self.trajectory.iloc[-1] = pva', 'set_pva forgets the attitude carrier')
v('C02', 'fire', S, 'i = len(self.trajectory) - 1', 'i = len(self.trajectory)')
v('C02', 'fire', S, 'return self.trajectory.iloc[-n_readings - 1:]', 'return self.trajectory.iloc[-n_readings:]')
v('C02', 'fire', S, 'self.mat_nb, theta, dv, n_data - 1, self.with_altitude)', 'self.mat_nb, theta, dv, n_data, self.with_altitude)')
v('C02', 'silent', S, 'if required_size > size:', 'if required_size >= size:')
v('C02', 'silent', S, 'max(2 * size, required_size)', 'max(3 * size, required_size + 5)')
v('C13', 'fire', S, '        if not self.with_altitude:\n            pva = pva.copy()\n            pva.VD = 0.0\n        i = len', '        i = len',
  'F4 repair reverted')
v('C13', 'fire', S, '        if not with_altitude:\n            self.initial_pva.VD = 0.0\n', '', 'constructor zeroing removed')
v('C13', 'fire', K, '            velocity_n[j + 1, 2] = 0.0', '            velocity_n[j + 1, 2] = V3')
v('C13 C05', 'fire', 'error_model.py', '        if not self.with_altitude:\n            velocity_n[2] = pva.VD\n', '')
v('C13 C19', 'fire', S, '            pva = pva.copy()\n            pva.VD = 0.0', '            pva.VD = 0.0', "set_pva zeroes the caller's Series")
v('C13 C05', 'fire', 'error_model.py', '        result[:, 5, 5] = -VN', '        result[:, 5, 5] = VN')
# ------------------------------------------------------------------ measurements C06
M = 'measurements.py'
v('C06', 'fire', M, 'ned_velocity_error_jacobian(pva, self.imu_to_antenna_b)', 'ned_velocity_error_jacobian(pva)', 'F3 repair reverted')
v('C06', 'fire', 'error_model.py', 'if imu_to_antenna_b is not None and all(col in pva for col in RATE_COLS):',
  'if imu_to_antenna_b is not None:', 'condition dropped on one side')
v('C06 C13', 'fire', M, '            R = R[:2, :2]\n\n        return z, H, R', '\n        return z, H, R')
v('C06', 'fire', M, 'z = pva[VEL_COLS] - self.data.loc[time, VEL_COLS]', 'z = self.data.loc[time, VEL_COLS] - pva[VEL_COLS]')
v('C06', 'fire', M, 'z = mat_nb.T @ pva[VEL_COLS]', 'z = mat_nb @ pva[VEL_COLS]')
v('C06', 'fire', M, 'z += mat_nb @ self.imu_to_antenna_b', 'z -= mat_nb @ self.imu_to_antenna_b')
v('C06', 'fire', M, '        if time not in self.data.index:\n            return None\n\n        mat_nb', '        mat_nb')
v('C06', 'fire', 'sim.py', "columns=['VX', 'VY', 'VZ'])", "columns=['VX', 'VY', 'VD'])")
v('C06', 'silent', M, '        return z, H, self.R', '        return z, H, self.R.copy()')
# ------------------------------------------------------------------ kalman C07 C08
KA = 'kalman.py'
v('C07', 'fire', KA, 'solve_triangular(L, e, lower=True)', 'solve_triangular(L, e, lower=False)')
v('C07', 'fire', KA, 'e = z - H.dot(x)', 'e = H.dot(x) - z')
v('C07', 'fire', KA, 'U.dot(P).dot(U.T) + K.dot(R).dot(K.T)', 'U.dot(P)', 'simple form')
v('C07', 'fire', KA, 'K.dot(R).dot(K.T)', 'K.dot(R).dot(K)')
v('C07', 'fire', KA, 'cho_solve((L, True), HP', 'cho_solve((L, False), HP')
v('C07', 'fire', KA, 'S = HP @ H.T + R', 'S = HP @ H.T')
v('C07 C19', 'fire', KA, 'K = cho_solve((L, True), HP, overwrite_b=True).T', 'K = cho_solve((L, True), P, overwrite_b=True).T')
v('C07', 'silent', KA, 'U = np.eye(len(x)) - K.dot(H)', 'U = np.identity(len(x)) - K @ H')
# round-6 seeds C07 (K R K^T with R replaced by its diagonal) and C08 (absolute-threshold clean-up)
v('C07', 'fire', KA, 'K.dot(R).dot(K.T)', '(K * np.diag(R)).dot(K.T)', 'round-6 seed: assumes R diagonal')
v('C07', 'fire', KA, 'K.dot(R).dot(K.T)', 'K.dot(np.diag(np.diag(R))).dot(K.T)', 'assumes R diagonal')
_VL_RET = '    return H[:n, :n], H[:n, n:] @ H[:n, :n].T\n'
v('C08', 'fire', KA, _VL_RET,
  '    Phi = H[:n, :n]\n    Qd = H[:n, n:] @ Phi.T\n    Qd = 0.5 * (Qd + Qd.T)\n'
  '    Qd[np.abs(Qd) < np.finfo(float).eps] = 0\n    return Phi, Qd\n', 'round-6 seed: absolute threshold on Qd')
v('C08', 'silent', KA, _VL_RET,
  '    Phi = H[:n, :n]\n    Qd = H[:n, n:] @ Phi.T\n    Qd = 0.5 * (Qd + Qd.T)\n    return Phi, Qd\n',
  'symmetrised noise integral')
v('C08', 'silent', KA, _VL_RET,
  '    Phi = H[:n, :n]\n    Qd = H[:n, n:] @ Phi.T\n    Qd = 0.5 * (Qd + Qd)\n    return Phi, Qd.T\n',
  'transposed product: the noise integral is symmetric')
v('C08', 'fire', KA, _VL_RET,
  '    Phi = H[:n, :n]\n    Qd = H[:n, n:] @ Phi.T\n    Qd = Qd + Qd.T\n    return Phi, Qd\n',
  'doubled')
v('C08', 'fire', KA, _VL_RET,
  '    Phi = H[:n, :n]\n    Qd = H[:n, n:] @ Phi\n    return Phi, Qd\n', 'missing transpose')
v('C07 C19', 'fire', KA, '    return (x + K @ (z - H @ x), U.dot(P).dot(U.T) + K.dot(R).dot(K.T),', '    x += K.dot(e)\n    return (x, U.dot(P).dot(U.T) + K.dot(R).dot(K.T),', 'seeded C07 round 5: posterior mean accumulated into the caller\'s prior')
v('C07', 'silent', KA, '    return (x + K @ (z - H @ x), U.dot(P).dot(U.T) + K.dot(R).dot(K.T),', '    x = x + K.dot(e)\n    return (x, U.dot(P).dot(U.T) + K.dot(R).dot(K.T),', 're-binding the local is not a write into the argument')
v('C11', 'fire', 'filters.py', '    trajectory.alt += error_nav.down', '    trajectory.alt -= error_nav.down', 'compensated altitude with the wrong sign')
v('C11', 'fire', 'filters.py', '    trajectory.lon -= error_nav.east / rp * transform.RAD_TO_DEG', '    trajectory.lon -= error_nav.east / rn * transform.RAD_TO_DEG', 'compensated longitude with the meridian radius')
v('C11', 'fire', 'filters.py', '    trajectory.lat -= error_nav.north / rn * transform.RAD_TO_DEG', '    trajectory.lat -= error_nav.north / rn', 'compensated latitude in radians')
v('C11 C19', 'silent', 'filters.py', '    trajectory = trajectory.copy()\n    trajectory.lat -=', '    trajectory.lat -=', 'redundant copy dropped: the public caller passes a fresh .loc selection (no user-visible mutation)')
v('C11', 'silent', 'filters.py', '    trajectory.lat -= error_nav.north / rn * transform.RAD_TO_DEG', '    trajectory.lat -= transform.RAD_TO_DEG * (error_nav.north / rn)', 'same compensation, other grouping')
v('C06', 'fire', 'measurements.py', '            mat_nb = transform.mat_from_rph(pva[RPH_COLS])\n            z += mat_nb @ self.imu_to_antenna_b\n        H = error_model.position_error_jacobian', '            z += self.imu_to_antenna_b @ transform.mat_from_rph(pva[RPH_COLS])\n        H = error_model.position_error_jacobian', 'seeded C06 round 4: lever arm multiplied from the left (C^T l)')
v('C11', 'fire', 'filters.py', '    T = error_model.transform_to_output(trajectory_nominal)\n', '    T = error_model.transform_to_output(trajectory_nominal)\n    T_sd = error_model.transform_to_output(trajectory)\n', 'seeded C11 round 4 (in kind): a second output transform at the computed trajectory')
v('C14', 'fire', 'inertial_sensor.py', '                if actual != nominal:', '                if not np.isclose(actual, nominal):', 'seeded C14 round 4: table column dropped for a parameter within isclose tolerance of nominal')
v('C14', 'silent', 'inertial_sensor.py', '                if actual != nominal:', '                if not actual == nominal:', 'same exact test, other spelling')
v('C14', 'silent', 'inertial_sensor.py', '                if actual != nominal:', '                if actual - nominal != 0:', 'same exact test on the deviation')
FL = 'filters.py'
_PR_OLD = ("            pva = pd.concat([\n                integrator.predict((measurement_time - time) / increment['dt'] *\n"
           "                                   increment),\n                pd.Series(increment[THETA_COLS].values / increment['dt'],\n")
v('C09 C12', 'fire', FL, _PR_OLD,
  "            partial = (measurement_time - time) / increment['dt'] * increment\n            pva = pd.concat([\n"
  "                integrator.predict(partial),\n                pd.Series(partial[THETA_COLS].values / partial['dt'],\n",
  'seeded C09 round 5: body rates from the scaled increment (0/0 when the epoch coincides with the state)')
v('C09', 'silent', FL, _PR_OLD,
  "            partial = (measurement_time - time) / increment['dt'] * increment\n            pva = pd.concat([\n"
  "                integrator.predict(partial),\n                pd.Series(increment[THETA_COLS].values / increment['dt'],\n",
  'the predicted increment held in a local: same values')
v('C10', 'fire', FL, '    times = trajectory_nominal.index\n', '    times = trajectory_nominal.index\n    time_step = max(time_step, times[1] - times[0])\n', 'seeded C10 round 5: step clamped to the first sampling interval')
v('C09 C12', 'silent', FL, '    end_time = increments.index[-1]', '    end_time = increments.index.max()', 'same end of a sorted index, other spelling')
v('C09', 'silent', FL, '    end_time = increments.index[-1]', '    end_time = float(np.max(increments.index))')
v('C09', 'fire', FL, '    end_time = increments.index[-1]', '    end_time = increments.index[-2]', 'the run stops one increment early')
v('C10 C11', 'silent', FL, '    end_time = times[-1]', '    end_time = times.max()')
v('C13 C12 C09', 'fire', FL, '    integrator = strapdown.Integrator(initial_pva, with_altitude)', '    integrator = strapdown.Integrator(initial_pva)', 'clause review: the altitude mode does not reach the integrator')
v('C13 C11', 'fire', FL, '    times = trajectory_nominal.index\n\n    error_model = InsErrorModel(with_altitude)', '    times = trajectory_nominal.index\n\n    error_model = InsErrorModel()', 'clause review: the altitude mode does not reach the error model of the feedforward filter')
v('C13', 'silent', FL, '    integrator = strapdown.Integrator(initial_pva, with_altitude)', '    integrator = strapdown.Integrator(initial_pva, with_altitude=with_altitude)')
v('C11', 'fire', FL, '        pva_old = trajectory_nominal.iloc[index]', '        pva_old = trajectory.iloc[index]', 'survey: propagation matrices at the computed trajectory')
v('C11', 'fire', FL, 'increments.loc[np.nextafter(time, next_time) : next_time]', 'increments.loc[time : next_time]', 'averaging batch includes the increment of the previous interval')
v('C11', 'fire', FL, 'increments.loc[np.nextafter(time, next_time) : next_time]', 'increments.loc[np.nextafter(time, next_tim) : next_time]', 'a misspelt name on the branch that needs increments')
v('C12 C11', 'fire', FL, '                               azimuth_sd, error_model, gyro_model, accel_model)\n\n    ins_block', '                               azimuth_sd, error_model, accel_model, accel_model)\n\n    ins_block', 'survey (exit 2 before): the accelerometer model in the gyro slot of the initial covariance')
v('C13 C02', 'fire', K, 'velocity_n[j + 1, 2] = 0.0', 'velocity_n[j + 1, 3] = 0.0', 'survey (exit 2 before): out-of-bounds store in the compiled kernel')
v('C01', 'fire', K, 'xi[0] = -chi1 * dt', 'xi[1] = -chi1 * dt', 'survey (exit 2 before): an element of an np.empty vector is read but never written')
v('C11 C12', 'fire', FL, '    gyro_sd = np.diagonal(P_gyro, axis1=1, axis2=2) ** 0.5', '    gyro_sd = np.diagonal(P_gyro, axis1=1, axis2=2) ** 1.0', 'survey: variance reported as sd')
v('C11 C12', 'fire', FL, '    P_gyro = P[:, gyro_block, gyro_block]', '    P_gyro = P[:, accel_block, gyro_block]', 'survey: cross block')
v('C11 C12', 'fire', FL, '        util.mm_prod_symmetric(T, P_ins), axis1=1, axis2=2) ** 0.5', '        util.mm_prod_symmetric(P_ins, T), axis1=1, axis2=2) ** 0.5', 'survey: congruence operands exchanged')
v('C12', 'fire', FL, '    accel_sd = np.diagonal(P_accel, axis1=1, axis2=2) ** 0.5', '    accel_sd = np.diagonal(P_accel, axis1=1, axis2=3) ** 0.5', 'survey: axis out of range')
v('C12', 'silent', FL, '    gyro_sd = np.diagonal(P_gyro, axis1=1, axis2=2) ** 0.5', '    gyro_sd = np.sqrt(np.diagonal(P_gyro, axis1=1, axis2=2))')
v('C12', 'fire', FL, 'gyro_result.append(gyro_model.get_estimates())', 'gyro_result.append(accel_model.get_estimates())', 'survey: estimates of the other model recorded')
v('C12', 'fire', FL, '        times_result.append(time)\n        gyro_result', '        times_result.append(next_time)\n        gyro_result', 'survey: recorded time of another epoch')
v('C12', 'fire', FL, 'gyro=pd.DataFrame(gyro_result, index=times_result),', 'gyro=pd.DataFrame(accel_result, index=times_result),', 'result key bound to the other list')
v('C11', 'fire', FL, '    trajectory = trajectory.loc[times_result]', '    trajectory = trajectory_nominal.loc[times_result]', 'survey: the nominal table handed over as the computed one')
v('C11', 'fire', FL, '        _compute_feedforward_result(x_result, P_result, trajectory_nominal, trajectory,', '        _compute_feedforward_result(P_result, x_result, trajectory_nominal, trajectory,', 'state and covariance exchanged')
v('C11', 'fire', FL, '        gyro=gyro,\n        gyro_sd=gyro_sd,\n        accel=accel,', '        gyro=accel,\n        gyro_sd=gyro_sd,\n        accel=gyro,', 'result keys exchanged')
v('C11 C12', 'fire', FL, 'P_pva = np.zeros((9, 9))', 'P_pva = np.ones((9, 9))', 'survey: correlated initial errors')
v('C11 C12 C08', 'fire', FL, '    F = np.zeros((n_states, n_states))', '    F = np.ones((n_states, n_states))', 'survey: background of the joint transition matrix')
v('C11 C12 C08', 'fire', FL, '    G = np.zeros((n_states, n_noises))', '    G = np.ones((n_states, n_noises))', 'survey: background of the noise input matrix')
v('C11 C08', 'fire', FL, '    q = np.hstack((gyro_model.v, accel_model.v, gyro_model.q, accel_model.q))', '    q = np.hstack((gyro_model.v, gyro_model.q, accel_model.v, accel_model.q))', 'noise intensities in another order than the blocks')
v('C11 C08', 'silent', FL, 'G @ np.diag(q**2) @ G.transpose()', '(G * q**2) @ G.T', 'same congruence, other spelling')
v('C10 C11', 'fire', FL, '    while index + 1 < len(trajectory):', '    while index + 2 < len(trajectory):', 'survey: last interval never processed')
v('C10', 'silent', FL, '    while index + 1 < len(trajectory):', '    while index < len(trajectory_nominal) - 1:')
v('C09 C12', 'fire', FL, '    while integrator.get_time() < end_time:', '    while integrator.get_time() <= end_time:', 'survey: one iteration past the last increment')
v('C12', 'fire', FL, '        gyro_average = increments_batch[THETA_COLS].sum(axis=0) / time_delta', '        gyro_average = increments_batch[THETA_COLS].sum(axis=0) * time_delta', 'survey: increments times the interval')
v('C11', 'fire', FL, '            accel_average = increments_batch[DV_COLS].sum(axis=0) / time_delta', '            accel_average = increments_batch[THETA_COLS].sum(axis=0) / time_delta', 'survey: rotation increments for the accelerometer model')
v('C11', 'silent', FL, '            accel_average = increments_batch[DV_COLS].sum(axis=0) / time_delta', '            accel_average = increments_batch[DV_COLS].values.sum(0) * (1 / time_delta)')
v('C09 C12', 'fire', FL, '        next_time = min(time + time_step,\n                        measurement_times[measurement_time_index])\n        next_increment_index', '        next_time = min(time - time_step,\n                        measurement_times[measurement_time_index])\n        next_increment_index', 'survey: step bound before the current time')
v('C11', 'fire', FL, '    x = np.zeros(len(P))', '    x = np.ones(len(P))', 'survey: non-zero initial error state')
v('C11', 'fire', FL, 'P = _initialize_covariance(trajectory_nominal.iloc[0], position_sd', 'P = _initialize_covariance(trajectory_nominal.iloc[1], position_sd', 'survey: initial covariance mapped at the second row')
v('C02 C09', 'fire', 'strapdown.py', 'return self.trajectory.index[-1]', 'return self.trajectory.index[-2]', 'survey: stale time from the accessor')
v('C02', 'silent', 'strapdown.py', 'return self.trajectory.iloc[-1]', 'return self.trajectory.iloc[len(self.trajectory) - 1].copy()')
SM_ = 'sim.py'
v('C06', 'fire', SM_, 'velocity_b = util.mv_prod(mat_nb, trajectory[VEL_COLS], at=True) + error', 'velocity_b = util.mv_prod(mat_nb, trajectory[VEL_COLS]) + error', 'body-velocity simulator projects with C instead of C^T')
v('C06', 'fire', SM_, 'lla = transform.perturb_lla(trajectory[LLA_COLS], error)', 'lla = transform.perturb_lla(trajectory[VEL_COLS], error)', 'survey: position simulator perturbs the velocity columns')
v('C06', 'fire', SM_, 'velocity_n = trajectory[VEL_COLS] + error', 'velocity_n = trajectory[LLA_COLS] + error', 'survey: velocity simulator reads the position columns')
v('C06', 'fire', SM_, 'velocity_n = trajectory[VEL_COLS] + error', 'velocity_n = trajectory[VEL_COLS] + error[:, [0, 0, 2]]', 'correlated error components')
v('C06', 'silent', SM_, 'velocity_n = trajectory[VEL_COLS] + error', 'velocity_n = trajectory[VEL_COLS] - error', 'sign of a zero-mean random error: not observable')
v('C06', 'silent', SM_, 'velocity_n = trajectory[VEL_COLS] + error', 'velocity_n = error + trajectory[VEL_COLS]')
v('C03', 'fire', SM_, '            lat = lat_new', '            lon = lat_new', 'survey: latitude iterate never handed on')
v('C03', 'fire', SM_, '    MAX_ITER = 3', '    MAX_ITER = 2', 'seeded C03 round 5: two passes do not reach the demanded accuracy on long legs')
v('C03', 'silent', SM_, '    MAX_ITER = 3', '    MAX_ITER = 5')
IS = 'inertial_sensor.py'
_CI = '        if isinstance(increments, pd.DataFrame):\n            dt = np.asarray(dt).reshape(-1, 1)'
v('C14 C12', 'fire', IS, _CI, '        if np.abs(self.bias).max() < 1e-6:\n            return increments\n' + _CI, 'shortcut review: estimates below a threshold are not applied')
v('C14', 'silent', IS, _CI, '        if not np.any(self.bias) and np.array_equal(self.transform, np.identity(3)):\n            return increments\n' + _CI, 'exact fast path: the correction is the identity')
TR = 'transform.py'
v('C18 C05', 'fire', TR, "    if _has_rph(difference):\n        difference[RPH_COLS] = util.to_180_range(difference[RPH_COLS])", "    if 'heading' in difference:\n        difference['heading'] = util.to_180_range(difference['heading'])", 'seeded C18 round 5: only the heading difference is reduced')
v('C08 C07', 'fire', KA, '    H = np.zeros((2 * n, 2 * n))\n    H[:n, :n] = F\n    H[:n, n:] = Q\n    H[n:, n:] = -F.T\n    H = expm(H * dt)\n    return H[:n, :n], H[:n, n:] @ H[:n, :n].T',
  '    Q_norm = np.linalg.norm(Q, 1)\n    scale = np.linalg.norm(F, 1) / Q_norm if Q_norm > 0 else 1.0\n    H = np.zeros((2 * n, 2 * n))\n    H[:n, :n] = F\n    H[:n, n:] = scale * Q\n    H[n:, n:] = -F.T\n    H = expm(H * dt)\n    return H[:n, :n], H[:n, n:] @ H[:n, :n].T / scale',
  'seeded C08 round 5: balancing scale is zero for a zero dynamics matrix')
v('C05 C04', 'fire', 'error_model.py', ['    @classmethod\n    def _transform_to_output_3d(cls, trajectory):', '        result = np.zeros((trajectory.shape[0], 9, 9))\n'],
  ['    _OUTPUT_3D_SINGLE = np.zeros((1, 9, 9))\n\n    @classmethod\n    def _transform_to_output_3d(cls, trajectory):', '        result = cls._OUTPUT_3D_SINGLE if series else np.zeros((trajectory.shape[0], 9, 9))\n'],
  'seeded C05 round 5: single-state transform built in a shared class-level buffer')
UT = 'util.py'
v('C19 C18', 'fire', UT, '    elif result > 180:', '    elif result >= 180:', 'seeded C19 round 5: the scalar arm reduces a half turn to -180, the array arm to 180')
v('C18', 'silent', UT, '    result = angle % 360', '    if np.all(np.abs(angle) < 180):\n        return angle\n    result = angle % 360', 'shortcut review: already reduced angles returned as they are')
v('C18', 'fire', UT, '    result = angle % 360', '    if np.all(np.abs(angle) <= 180):\n        return angle\n    result = angle % 360', 'shortcut review: -180 is returned instead of 180')
v('C14 C12', 'fire', IS, 'P[n_states, n_states] = bias_sd[axis] ** 2', 'P[n_states, n_states] = bias_sd[axis] ** 3', 'survey: initial covariance is not the squared sd')
v('C14', 'fire', IS, 'G[n_states, n_noises] = 1', 'G[n_states, n_noises] = 2', 'survey: noise input gain')
v('C14', 'fire', IS, 'F = np.zeros((self.MAX_STATES, self.MAX_STATES))', 'F = np.ones((self.MAX_STATES, self.MAX_STATES))', 'survey: dynamics matrix not zero')
v('C14', 'fire', IS, '            if bias_sd[axis] > 0:', '            if bias_sd[axis] > 1:', 'survey: enable threshold')
v('C14', 'fire', IS, '            if noise[axis] > 0:', '            if noise[axis] >= 0:', 'survey: a disabled axis gets a noise column')
v('C14', 'fire', IS, 'MAX_STATES = 12', 'MAX_STATES = 6', 'survey: buffer too small for the full model')
v('C14', 'fire', IS, '        for output_axis in range(3):', '        for output_axis in range(2):', 'survey: z row of the scale/misalignment matrix never modelled')
v('C14', 'fire', IS, 'if readings.ndim == 1:', 'if readings.ndim != 1:', 'survey: output matrix arms exchanged')
v('C14', 'fire', IS, '(1 if axis_out == axis_in else 0))', '(1 if axis_out != axis_in else 0))', 'survey: nominal transform in the read-back')
v('C14', 'fire', IS, 'v[n_output_noises] = noise[axis]', 'v[n_output_noises] = noise[axis] ** 2', 'output noise intensity squared at the producer only')
v('C14', 'silent', IS, 'P[n_states, n_states] = bias_sd[axis] ** 2', 'P[n_states, n_states] = bias_sd[axis] * bias_sd[axis]')
v('C14', 'silent', IS, '            if bias_sd[axis] > 0:', '            if not bias_sd[axis] <= 0:')
v('C14', 'silent', IS, 'H = np.zeros((3, self.MAX_STATES))', 'H = np.zeros((3, 2 * self.MAX_STATES))', 'larger scratch buffer')
v('C14', 'fire', IS, 'nominal = 1 if axis_out == axis_in else 0', 'nominal = 1 if axis_out != axis_in else 0', 'survey: nominal transform of the parameter table')
v('C14', 'fire', IS, '        for axis_out in range(3):', '        for axis_out in range(2):', 'survey: z row missing from the parameter table')
v('C14', 'fire', IS, "                self.data_frame[f'bias_{INDEX_TO_XYZ[axis]}'] = bias[:, axis]", "                self.data_frame[f'bias_{INDEX_TO_XYZ[axis]}'] = bias[:, 0]", 'bias column of another axis')
v('C14', 'fire', IS, '            if self.bias[axis] != 0 or self.bias_walk[axis] != 0:', '            if self.bias[axis] != 0:', 'walk-only axis missing from the table')
v('C14', 'silent', IS, '                if actual != nominal:', '                if abs(actual - nominal) > 0:')
v('C14', 'fire', IS, '            return np.zeros(shape)\n\n        param = np.asarray(param)', '            return np.ones(shape)\n\n        param = np.asarray(param)', 'survey: None enables every term')
v('C07', 'fire', KA, '    S = HP @ H.T + R\n', '    S = HP @ H.T + R\n    S[np.diag_indices_from(S)] += 1e-10\n', 'seeded C07 round 4: absolute jitter on the innovation covariance')
_LEV = ('        if self.imu_to_antenna_b is not None:\n            mat_nb = transform.mat_from_rph(pva[RPH_COLS])\n'
        '            z += mat_nb @ self.imu_to_antenna_b\n')
v('C13 C06', 'fire', 'measurements.py',
  [_LEV + '        H = error_model.position_error_jacobian', '            R = R[:2, :2]\n        return z, H, R\n'],
  ['        H = error_model.position_error_jacobian', '            R = R[:2, :2]\n' + _LEV + '        return z, H, R\n'],
  'seeded C13 round 4: lever-arm term added after the 2-row reduction (ValueError without altitude)')
v('C05', 'fire', 'error_model.py', '        mat_tp = Rotation.from_rotvec(x[self.PHI]).as_matrix()\n',
  '        phi = x[self.PHI]\n        if phi @ phi > 1e-8:\n            mat_tp = Rotation.from_rotvec(phi).as_matrix()\n'
  '        else:\n            mat_tp = np.eye(3)\n', 'seeded C05 round 4: attitude correction skipped below 1e-4 rad')
v('C02 C09', 'fire', 'strapdown.py', '        if required_size > size:', "        if mode == 'integrate' and required_size > size:",
  'seeded C02/C09 round 4: predict no longer grows the buffers it writes into')
v('C10 C11', 'fire', 'filters.py', '        while measurement_times[measurement_time_index] < next_time:',
  '        if measurement_times[measurement_time_index] < next_time:', 'seeded C10 round 4: drain loop reduced to one step')
v('C04', 'fire', 'error_model.py', 'B_gyro[np.ix_(samples, self.DV, [0, 1, 2])] = util.mm_prod(V_skew, mat_nb)',
  'B_gyro[np.ix_(samples, self.DV, [0, 1, 2])] = util.mm_prod(mat_nb, V_skew)', 'seeded C04 round 4: operands of the gyro input block exchanged')
v('C19', 'fire', 'transform.py', 'result = np.empty_like(diff, dtype=float)', 'result = np.empty_like(diff)',
  'seeded C19 round 4: result buffer inherits an integer dtype (reverts the F7 repair)')
_PW = ('    lla[:, 1] += np.rad2deg(dr_n[:, 1] / rp)', '    lla[:, 1] = util.to_180_range(lla[:, 1] + np.rad2deg(dr_n[:, 1] / rp))')
_DW = ('result[:, 1] = np.deg2rad(diff[:, 1]) * rp', 'result[:, 1] = np.deg2rad(util.to_180_range(diff[:, 1])) * rp')
v('C16 C05', 'fire', 'transform.py', _PW[0], _PW[1], 'seeded C16 round 4: perturb_lla reduces the longitude, the difference does not')
v('C16 C05', 'silent', 'transform.py', [_PW[0], _DW[0]], [_PW[1], _DW[1]], 'both maps reduce the longitude: consistent')
v('C16', 'silent', 'transform.py', _DW[0], _DW[1], 'only the difference reduces the longitude: more robust, still inverse')
v('C16 C01', 'fire', 'earth.py', 'F = (1 - E2) ** 0.5 * GP / GE - 1', 'F = (1 + E2) ** 0.5 * GP / GE - 1', 'survey: Somigliana constant')
v('C16', 'silent', 'earth.py', 'F = (1 - E2) ** 0.5 * GP / GE - 1', 'F = np.sqrt(1 - E2) * (GP / GE) - 1')
v('C16 C01 C11 C18', 'fire', 'transform.py', 'DEG_TO_RAD = np.pi / 180', 'DEG_TO_RAD = np.pi / 360', 'survey: degree factor')
v('C16', 'fire', 'earth.py', 'E2 = 6.6943799901413e-3', 'E2 = 6.6943799901413e-2', 'eccentricity off by a factor 10')
_VL_OLD = "    n = len(F)\n"
_VL_NEW = "    n = len(F)\n    if np.linalg.norm(F, 1) * dt > 18:\n        Phi, Qd = compute_process_matrices(F, Q, 0.5 * dt)\n%s\n"
v('C08', 'fire', KA, _VL_OLD, _VL_NEW % "        Phi = Phi @ Phi\n        return Phi, Phi @ Qd @ Phi.T + Qd", 'seeded C08 round 4: halved step re-composed with the squared transition')
v('C08', 'silent', KA, _VL_OLD, _VL_NEW % "        return Phi @ Phi, Phi @ Qd @ Phi.T + Qd", 'halved step re-composed by the semigroup law (exact)')
v('C18', 'fire', 'transform.py', '    return result[state.columns]', '    return result', 'seeded C18 round 4 (in kind): result not re-ordered by the input columns')
v('C06', 'fire', 'measurements.py', '        self.R = sd**2 * np.eye(3)', '        self.R = sd * np.eye(3)', 'noise matrix holds the standard deviation instead of the variance')
v('C06 C13', 'fire', 'measurements.py', '            R = R[:2, :2]', '            R = R[1:, 1:]', '2-D noise block taken from the east/down components')
v('C06', 'silent', 'measurements.py', '        self.R = sd**2 * np.eye(3)', '        self.R = np.diag([sd * sd] * 3)', 'same variance matrix, other spelling')
v('C19 C16', 'fire', 'earth.py', '    n = 1 if re.ndim == 0 else len(re)', '    n = 1', 'stacked form of curvature_matrix allocates one row (broadcasting error for n > 1)')
v('C01 C04', 'fire', '_numba_integrate.py', '        rho1 = V2 / re\n', '        rho1 = V2 / rn\n', 'seeded C01 round 3: east transport rate with the meridian radius (velocity update only)')
v('C10 C11 C12', 'fire', 'filters.py', """    start_time = times[0]
    end_time = times[-1]
    measurement_times = measurement_times[(measurement_times >= start_time) &""", """    start_time = times[0]
    end_time = times[-1]
    measurement_times = measurement_times[(measurement_times > start_time) &""", 'seeded C10 round 3: epoch at the first trajectory time excluded')
_RPH_OLD = "    return Rotation.from_matrix(mat).as_euler('xyz', degrees=True)"
v('C17 C05', 'fire', 'transform.py', _RPH_OLD, """    mat = np.asarray(mat, dtype=float)
    sin_pitch = -mat[..., 2, 0]
    cos_pitch = np.hypot(mat[..., 0, 0], mat[..., 1, 0])
    rph = np.empty(mat.shape[:-2] + (3,))
    rph[..., 0] = np.arcsin(mat[..., 2, 1] / cos_pitch)
    rph[..., 1] = np.arctan2(sin_pitch, cos_pitch)
    rph[..., 2] = np.arctan2(mat[..., 1, 0], mat[..., 0, 0])
    return np.rad2deg(rph)""", 'seeded C17 round 3: closed form, roll through arcsin')
v('C17 C05', 'silent', 'transform.py', _RPH_OLD, """    mat = np.asarray(mat, dtype=float)
    sin_pitch = -mat[..., 2, 0]
    cos_pitch = np.hypot(mat[..., 0, 0], mat[..., 1, 0])
    rph = np.empty(mat.shape[:-2] + (3,))
    rph[..., 0] = np.arctan2(mat[..., 2, 1], mat[..., 2, 2])
    rph[..., 1] = np.arctan2(sin_pitch, cos_pitch)
    rph[..., 2] = np.arctan2(mat[..., 1, 0], mat[..., 0, 0])
    return np.rad2deg(rph)""", 'closed form with four-quadrant roll and atan2 pitch')
v('C02', 'fire', 'strapdown.py', "        rph = transform.mat_to_rph(self.mat_nb[n_data : n_data + n_readings])\n", "        rph = transform.mat_to_rph(self.mat_nb[n_data : n_data + n_readings])\n        self.mat_nb[n_data : n_data + n_readings] = transform.mat_from_rph(rph)\n", 'seeded C02 round 3: attitude buffer re-derived from the output angles at the end of each call')
v('C05', 'silent', 'error_model.py', '            result = self.TRANSFORM_2D_3D @ result\n        return result', '            result = util.mm_prod(self.TRANSFORM_2D_3D, result)\n        return result', 'same reduction through mm_prod')
_SP_OLD = "        if not self.with_altitude:\n            pva = pva.copy()\n            pva.VD = 0.0\n        i = len(self.trajectory) - 1"
v('C13', 'fire', 'strapdown.py', _SP_OLD, _SP_OLD.replace('if not self.with_altitude:', 'if not self.with_altitude and abs(pva.VD) > 0:'), 'seeded C13 round 3: zeroing skipped when abs(VD) > 0 is false (NaN passes)')
v('C13 C02', 'silent', 'strapdown.py', _SP_OLD, _SP_OLD.replace('if not self.with_altitude:', 'if not self.with_altitude and pva.VD != 0:'), 'zeroing skipped only when VD == 0 (NaN != 0 is true)')
v('C03', 'fire', 'sim.py', 'omega[3] = -ac + np.cross(a, ab) / 6', 'omega[3] = np.cross(ab, a) / 6 - ac', 'seeded C03 round 3: operands of a x (a x b) exchanged')
v('C16', 'fire', 'transform.py', """    rn, _, rp = earth.principal_radii(0.5 * (lla1[:, 0] + lla2[:, 0]),
                                      0.5 * (lla1[:, 2] + lla2[:, 2]))""", """    rn, _, rp = earth.principal_radii(0.5 * (lla1[:, 0] + lla2[:, 0]),
                                      0.5 * (lla1[:, 2] - lla2[:, 2]))""", 'seeded C16 round 3: metre scale at half the altitude difference')
_CI_OLD = ["        self.transform = np.identity(3)\n        self.bias = np.zeros(3)\n\n    @staticmethod",
           "                self.transform[axis_out, axis_in] += xi\n",
           "        corrected = np.linalg.solve(self.transform,\n                                    (increments.values - self.bias * dt).T).T"]
_CI_NEW = ["        self.transform = np.identity(3)\n        self.bias = np.zeros(3)\n        self._transform_inv = np.identity(3)\n\n    @staticmethod",
           "                self.transform[axis_out, axis_in] += xi\n        self._transform_inv = np.linalg.inv(self.transform)\n",
           "        corrected = (increments.values - self.bias * dt) @ self._transform_inv.T"]
v('C19 C12 C14', 'fire', 'inertial_sensor.py', _CI_OLD, _CI_NEW, 'seeded C19 round 3 (in kind): cached inverse of the transform that reset_estimates does not refresh')
v('C19 C12 C14', 'silent', 'inertial_sensor.py', _CI_OLD + ["    def reset_estimates(self):\n        self.transform = np.identity(3)\n        self.bias = np.zeros(3)\n"], _CI_NEW + ["    def reset_estimates(self):\n        self.transform = np.identity(3)\n        self.bias = np.zeros(3)\n        self._transform_inv = np.identity(3)\n"], 'cached inverse kept consistent by every writer')
v('C14 C12', 'fire', 'inertial_sensor.py', "        corrected = np.linalg.solve(self.transform,\n                                    (increments.values - self.bias * dt).T).T", "        corrected = np.linalg.solve(self.transform.T,\n                                    (increments.values - self.bias * dt).T).T", 'correction solves with the transposed transform')
v('C14 C12', 'silent', 'inertial_sensor.py', "        corrected = np.linalg.solve(self.transform,\n                                    (increments.values - self.bias * dt).T).T", "        corrected = (increments.values - self.bias * dt) @ np.linalg.inv(self.transform).T", 'explicit inverse, same correction')
v('C08 C11 C12', 'fire', 'filters.py', "    G = np.zeros((n_states, n_noises))\n", "    if n_noises == 0:\n        return np.identity(n_states) + F * time_delta, np.zeros((n_states, n_states))\n\n    G = np.zeros((n_states, n_noises))\n", 'seeded C08 round 3: first-order shortcut when no noise is modelled')
v('C08', 'fire', KA, "    n = len(F)\n", "    n = len(F)\n    if not np.any(Q):\n        return np.identity(n) + F * dt, np.zeros((n, n))\n", 'first-order shortcut inside compute_process_matrices')
_DS_OLD = """        rn, _, rp = earth.principal_radii(0.5 * (first.lat + second.lat),
                                          0.5 * (first.alt + second.alt))"""
v('C18', 'fire', 'transform.py', _DS_OLD, '        rn, _, rp = earth.principal_radii(first.lat, first.alt)', 'seeded C18 round 3: metre scale evaluated at the first operand')
v('C18', 'silent', 'transform.py', _DS_OLD, '        lat_mid = (first.lat + second.lat) / 2\n        alt_mid = (second.alt + first.alt) / 2\n        rn, _, rp = earth.principal_radii(lat_mid, alt_mid)', 'mid-point through locals')
v('C18', 'fire', 'transform.py', _DS_OLD, '        rn, _, rp = earth.principal_radii(0.5 * (first.lat + second.lat), second.alt)', 'metre scale at a mixed, asymmetric point')
v('C15 C01', 'fire', 'strapdown.py', 'coning = np.cross(a_gyro, b_gyro) * dt ** 2 / 12', 'coning = np.cross(a_gyro, b_gyro) * dt ** 2 / 6', 'seeded C15 round 3: coning coefficient of the rate branch doubled')
v('C04', 'fire', 'error_model.py', """        F[np.ix_(samples, self.PHI, self.PHI)] = (-util.skew_matrix(rho_n + Omega_n) +
                                                  util.mm_prod(R, V_skew))""", """        F[np.ix_(samples, self.PHI, self.PHI)] = -util.skew_matrix(rho_n + Omega_n)
        + util.mm_prod(R, V_skew)""", 'seeded C04 round 3: second line of a wrapped expression became a statement without effect')
v('C12 C14', 'fire', 'filters.py', """    result[THETA_COLS] = gyro_model.correct_increments(increments['dt'],
                                                       increments[THETA_COLS])""", """    result[THETA_COLS] = accel_model.correct_increments(increments['dt'],
                                                       increments[THETA_COLS])""", 'accelerometer model corrects the rotation increments')
v('C19', 'fire', 'util.py', """    if bt:
        if b.ndim == 3:
            b = np.transpose(b, (0, 2, 1))""", """    if bt:
        if b.ndim == 3:
            b = np.transpose(b, (0, 1, 2))""", 'mm_prod: stacked arm of the b-transposition is a no-op')
v('C19', 'fire', 'util.py', '    return np.einsum("...ij,...j->...i", a, b)', '    return np.einsum("...ji,...j->...i", a, b)', 'mv_prod: transposed contraction')
v('C19', 'fire', 'util.py', '    return mm_prod(ab, a, bt=True)', '    return mm_prod(ab, a, at=True)', 'mm_prod_symmetric: wrong operand transposed')
v('C19', 'silent', 'util.py', '    return np.einsum("...ij,...jk->...ik", a, b)', '    return np.einsum("...ik,...kj->...ij", a, b)', 'einsum index names')
v('C05', 'fire', 'error_model.py', '            result = self.TRANSFORM_2D_3D @ result\n        return result', '            result = np.linalg.pinv(self._transform_3d_2d(pva.VN, pva.VE)) @ result\n        return result', 'seeded C05 round 3: 2-D reduction by the pseudo-inverse of the embedding (vertical velocity error leaks into tilt)')
v('C09 C12', 'fire', 'filters.py', "integrator.predict((measurement_time - time) / increment['dt'] *", "integrator.predict((measurement_time - time) / time_step *", 'feedback epoch state: fraction of the covariance step instead of the sampling interval')
v('C09 C12', 'fire', 'filters.py', "pd.Series(increment[THETA_COLS].values / increment['dt'],", "pd.Series(increment[DV_COLS].values / increment['dt'],", 'feedback epoch state: body rates from the velocity increment')
v('C09 C12', 'silent', 'filters.py', "integrator.predict((measurement_time - time) / increment['dt'] *\n                                   increment),", "integrator.predict(increment * (measurement_time - time) / increment['dt']),", 'same scaled increment, other operand order')
_MG_OLD = ["    def __init__(self, data):\n        self.data = data\n",
           "        if time not in self.data.index:\n            return None\n\n        z = transform.compute_lla_difference(pva[LLA_COLS],\n                                             self.data.loc[time, LLA_COLS])"]
_MG_HELPER = "    def __init__(self, data):\n        self.data = data\n\n    def _find_measured(self, time):\n%s\n"
_MG_USE = "        measured = self._find_measured(time)\n        if measured is None:\n            return None\n\n        z = transform.compute_lla_difference(pva[LLA_COLS], measured[LLA_COLS])"
v('C06', 'fire', 'measurements.py', _MG_OLD, [_MG_HELPER % "        index = np.argmin(np.abs(np.asarray(self.data.index) - time))\n        if not np.isclose(self.data.index[index], time):\n            return None\n        return self.data.iloc[index]", _MG_USE], 'seeded C06 round 3 (in kind): time matched with np.isclose (window grows with the stamp)')
v('C06 C13', 'silent', 'measurements.py', _MG_OLD, [_MG_HELPER % "        if time not in self.data.index:\n            return None\n        return self.data.loc[time]", _MG_USE], 'exact membership test moved into a helper')
v('C07', 'fire', KA, 'U.dot(P).dot(U.T) + K.dot(R).dot(K.T)', 'P - K.dot(S).dot(K.T)', 'seeded C07 round 3: short form P - K S K^T (cancellation, not PSD by construction)')
v('C14', 'fire', 'inertial_sensor.py', """        bias = self.bias + self.bias_walk * np.cumsum(
            self.rng.randn(*readings.shape) * dt ** 0.5, axis=0)""", """        bias = self.bias + self.bias_walk * dt ** 0.5 * np.cumsum(
            self.rng.randn(*readings.shape), axis=0)""", 'seeded C14 round 3: sqrt(dt) pulled out of the cumulative sum')
v('C10 C11', 'fire', 'filters.py', """    measurement_times = np.hstack([np.empty(0)] + [
        np.asarray(measurement.data.index) for measurement in measurements])
    measurement_times = np.sort(np.unique(measurement_times))

    start_time = times[0]""", """    measurement_times = np.sort(np.hstack([np.empty(0)] + [
        np.asarray(measurement.data.index) for measurement in measurements]))

    start_time = times[0]""", 'seeded C11 round 3 (= C10 round 1 in kind): feedforward epoch list not de-duplicated')
v('C11 C12', 'fire', 'filters.py', '.mean([1 - alpha, alpha])', '.mean([alpha, 1 - alpha])', 'interpolated attitude with swapped weights')
v('C11 C12', 'fire', 'filters.py', '(1 - alpha) * first[LLA_COLS] + alpha * second[LLA_COLS]', 'alpha * first[LLA_COLS] + (1 - alpha) * second[LLA_COLS]', 'interpolated position with swapped weights')
v('C11 C12', 'fire', 'filters.py', '(1 - alpha) * first[VEL_COLS] + alpha * second[VEL_COLS]', '(1 - alpha) * first[VEL_COLS] + alpha * second[LLA_COLS]', 'interpolated velocity mixes differently labelled selections')
v('C11', 'fire', 'filters.py', '(measurement_time - time) / (next_time - time))', '(next_time - measurement_time) / (next_time - time))', 'epoch fraction measured from the wrong end')
v('C11', 'fire', 'filters.py', 'pva = _interpolate_pva(trajectory.iloc[index], trajectory.iloc[index + 1],', 'pva = _interpolate_pva(trajectory.iloc[index + 1], trajectory.iloc[index],', 'epoch state: end rows swapped')
v('C12', 'fire', 'filters.py', '        pva_average = _interpolate_pva(pva_old, pva_new, 0.5)', '        pva_average = _interpolate_pva(pva_old, pva_new, 1.0)', 'feedback: propagation matrices at the end state instead of the mid-point')
v('C11 C12', 'silent', 'filters.py', '(1 - alpha) * first[LLA_COLS] + alpha * second[LLA_COLS]', 'first[LLA_COLS] + alpha * (second[LLA_COLS] - first[LLA_COLS])', 'incremental form of the same interpolation')
v('C04', 'fire', 'error_model.py', 'Phi = 0.5 * (Fi[1:] + Fi[:-1]) * dt.reshape(-1, 1, 1)', 'Phi = (Fi[1:] + Fi[:-1]) * dt.reshape(-1, 1, 1)', 'propagation: average without the 1/2')
v('C04', 'fire', 'error_model.py', 'accel_error = util.mv_prod(Fia, accel_error)', 'accel_error = util.mv_prod(Fig, accel_error)', 'propagation: accelerometer error through the gyro coupling')
v('C04', 'fire', 'error_model.py', 'x[i + 1] = Phi[i].dot(x[i]) + delta_sensor[i] * dt[i]', 'x[i + 1] = Phi[i].dot(x[i]) + delta_sensor[i]', 'propagation: sensor term not multiplied by the step')
E_ = 'error_model.py'
_PD = '        result[np.ix_(samples, cls.DRPH, cls.PHI)] = _phi_to_delta_rph(\n            trajectory[RPH_COLS])\n'
v('C17 C05', 'fire', E_, _PD, '        rph = trajectory[RPH_COLS].to_numpy(dtype=float, copy=True)\n        rph[:, 1] = np.clip(rph[:, 1], -85.0, 85.0)\n        result[np.ix_(samples, cls.DRPH, cls.PHI)] = _phi_to_delta_rph(rph)\n', 'seeded C17 round 5: pitch clamped to +-85 deg before the Euler-error block')
v('C17 C05', 'silent', E_, _PD, '        rph = trajectory[RPH_COLS].to_numpy(dtype=float, copy=True)\n        rph[:, 1] = np.clip(rph[:, 1], -90.0, 90.0)\n        result[np.ix_(samples, cls.DRPH, cls.PHI)] = _phi_to_delta_rph(rph)\n', 'a guard that covers the whole domain of pitch changes nothing')
v('C04', 'fire', E_, 'for i in range(n_samples - 1):', 'for i in range(n_samples - 2):', 'survey: last interval never propagated')
v('C04', 'fire', E_, 'n_samples = Fi.shape[0]', 'n_samples = Fi.shape[1]', 'survey: row count taken from the state axis')
v('C04', 'silent', E_, 'for i in range(n_samples - 1):', 'for i in range(len(dt)):')
v('C04', 'silent', E_, 'for i in range(n_samples - 1):', 'for i in range(len(Phi)):')
v('C04', 'silent', E_, 'n_samples = Fi.shape[0]', 'n_samples = len(trajectory)')
v('C04', 'fire', E_, 'pva_error = pd.Series(data=np.zeros(9), index=TRAJECTORY_ERROR_COLS)', 'pva_error = pd.Series(data=np.ones(9), index=TRAJECTORY_ERROR_COLS)', 'survey: default initial error')
v('C04', 'silent', E_, 'pva_error = pd.Series(data=np.zeros(9), index=TRAJECTORY_ERROR_COLS)', 'pva_error = pd.Series(0.0, index=TRAJECTORY_ERROR_COLS)')
v('C04', 'fire', E_, 'gyro_error=np.zeros(3)', 'gyro_error=np.ones(3)', 'survey: default sensor error')
v('C04', 'silent', E_, 'gyro_error=np.zeros(3)', 'gyro_error=(0, 0, 0)')
v('C05 C17 C19', 'fire', E_, 'single = rph.ndim == 1', 'single = rph.ndim != 1', 'survey: Euler-error matrix of the first state used for a whole table')
v('C16 C19', 'fire', 'earth.py', 'return result[0] if re.ndim == 0 else result', 'return result[0] if re.ndim != 0 else result', 'survey: rank of the result exchanged between the forms')
v('C04', 'fire', 'error_model.py', 'x0 = (error_model.transform_to_internal(trajectory.iloc[0]) @', 'x0 = (error_model.transform_to_output(trajectory.iloc[0]) @', 'propagation: initial error mapped with the wrong transform')
v('C04', 'silent', 'error_model.py', 'Phi = 0.5 * (Fi[1:] + Fi[:-1]) * dt.reshape(-1, 1, 1)', 'Phi = Fi[:-1] * dt.reshape(-1, 1, 1)', 'forward Euler: a different but consistent one-step scheme')
v('C04', 'silent', 'error_model.py', 'x[i + 1] = Phi[i].dot(x[i]) + delta_sensor[i] * dt[i]', 'x[i + 1] = Phi[i] @ x[i] + dt[i] * delta_sensor[i]', 'spelling')
v('C19 C14', 'fire', 'inertial_sensor.py', 'return cls(transform, bias, model.noise, model.bias_walk, rng)', 'return cls(transform=transform, bias=bias, noise=model.noise,\n                   bias_walk=model.bias_walk)', 'seeded C19 round 2: generator no longer forwarded to the constructor')
v('C19', 'silent', 'inertial_sensor.py', 'return cls(transform, bias, model.noise, model.bias_walk, rng)', 'return cls(transform=transform, bias=bias, noise=model.noise,\n                   bias_walk=model.bias_walk, rng=rng)', 'keyword form that forwards the generator')
v('C19', 'fire', 'error_model.py', '        result[:, 5, 5] = -VN\n        return result if is_series else result[0]', '        result[:, 5, 5] = -VN\n        return result if is_series else -result[0]', 'Series arm of the 2-D embedding edited alone')
v('C03', 'fire', 'sim.py', 'rn, _, _ = earth.principal_radii(np.rad2deg(lat), alt)', '_, rn, _ = earth.principal_radii(np.rad2deg(lat), alt)', 'initial-position form: latitude integrated with the east radius')
v('C03', 'fire', 'sim.py', 'rn, _, _ = earth.principal_radii(np.rad2deg(lat), alt)', 'rn, _, _ = earth.principal_radii(lat, alt)', 'initial-position form: radians handed to principal_radii')
v('C03', 'fire', 'sim.py', 'VU_spline = CubicSpline(time, -velocity_n[:, 2])', 'VU_spline = CubicSpline(time, velocity_n[:, 2])', 'initial-position form: altitude integrates +VD')
v('C03', 'fire', 'sim.py', 'lla[:, 1] = lon0 + np.rad2deg(lon_spline(time))', 'lla[:, 1] = lon0 + lon_spline(time)', 'initial-position form: longitude in radians')
v('C03', 'fire', 'sim.py', 'lat_new = lat0 + lat_spline(time)', 'lat_new = lat + lat_spline(time)', 'initial-position form: iteration accumulates')
v('C03', 'silent', 'sim.py', 'MAX_ITER = 3', 'MAX_ITER = 5', 'more Picard iterations')
_W_OLD = """    result = angle % 360
    if is_pandas or result.ndim > 0:
        result[result < -180] += 360
        result[result > 180] -= 360
    elif result < -180:
        result += 360
    elif result > 180:
        result -= 360
    return result"""
v('C18', 'fire', 'util.py', _W_OLD, '    return (angle + 180) % 360 - 180', 'seeded C18 round 2: one-liner reduces into [-180, 180)')
v('C18', 'silent', 'util.py', _W_OLD, '    return 180 - (180 - angle) % 360', 'one-liner that reduces into (-180, 180]')
v('C18', 'silent', 'util.py', _W_OLD, '    return -((180 - angle) % 360 - 180)', 'negated one-liner into (-180, 180]')
v('C18', 'fire', 'util.py', _W_OLD, '    return 180 - (180 + angle) % 360', 'one-liner with the sign of the angle flipped')
v('C18', 'silent', 'util.py', _W_OLD, '    result = angle % 360\n    return np.where(result > 180, result - 360, result)', 'np.where formulation')
v('C18', 'fire', 'util.py', _W_OLD, '    result = angle % 360\n    return np.where(result >= 180, result - 360, result)', 'np.where formulation with the boundary on the wrong side')
v('C19 C16', 'fire', 'earth.py', '        return np.array([0, 0, g])', '        return np.array([0, 0, -g])', 'scalar-form arm of gravity_n edited alone')
v('C19 C16', 'fire', 'earth.py', '    return result[0] if lat.ndim == 0 else result', '    return result[0] if lat.ndim == 0 else -result', 'stacked-form arm of rate_n edited alone')
v('C19 C16', 'fire', 'earth.py', '        result[:, 2] = g', '        result[:, 1] = g', 'stacked-form arm of gravity_n writes the wrong component')
v('C19 C16', 'silent', 'earth.py', '    lat = np.asarray(lat)\n    n = 1 if lat.ndim == 0 else len(lat)', '    lat = np.asarray(lat)\n    n = len(lat) if lat.ndim > 0 else 1', 'inverted dispatch spelling')
v('C15 C01', 'fire', 'strapdown.py', 'dt = np.diff(imu.index).reshape(-1, 1)', 'dt = np.round(np.diff(imu.index), 6).reshape(-1, 1)', 'seeded C15 round 2: sampling intervals rounded to the microsecond')
v('C17 C05', 'fire', 'error_model.py', 'result[:, 2, 1] = -sin[:, 2] * sin[:, 1] / cos[:, 1]', 'result[:, 2, 1] = -sin[:, 2] * sin[:, 1] / cos[:, 0]', 'seeded C17 round 2: heading-error entry divides by cos(roll)')
v('C13 C02', 'fire', K, '        lla[j + 1, 2] = lla[j, 2] - V3 * dt', '        if with_altitude:\n            lla[j + 1, 2] = lla[j, 2] - V3 * dt\n        else:\n            lla[j + 1, 2] = lla[0, 2]', 'seeded C13 round 2: frozen altitude taken from row 0 of the buffer')
v('C13', 'silent', K, '        lla[j + 1, 2] = lla[j, 2] - V3 * dt', '        if with_altitude:\n            lla[j + 1, 2] = lla[j, 2] - V3 * dt\n        else:\n            lla[j + 1, 2] = lla[j, 2]', 'explicit copy of the current altitude')
v('C12 C14', 'fire', 'inertial_sensor.py', ['        self.transform = np.identity(3)\n        self.bias = np.zeros(3)\n\n    @staticmethod', '    def reset_estimates(self):\n        self.transform = np.identity(3)\n        self.bias = np.zeros(3)'], ['        self._nominal_transform = np.identity(3)\n        self._nominal_bias = np.zeros(3)\n        self.reset_estimates()\n\n    @staticmethod', '    def reset_estimates(self):\n        self.transform = self._nominal_transform\n        self.bias = self._nominal_bias'], 'seeded C12 round 2: reset aliases arrays that update_estimates mutates in place')
T_ = 'transform.py'
v('C16', 'fire', T_, 'a4 = 2.5 * a2', 'a4 = 2.0 * a2', 'Olson series constant')
v('C16', 'fire', T_, 'a3 = a1 * e2 / 2', 'a3 = a1 * e2 / 3', 'Olson series constant')
v('C16', 'fire', T_, 'a5 = a1 + a3', 'a5 = a1 - a3', 'Olson series constant (arccos branch only)')
v('C16', 'fire', T_, 'p = m / (rf / g + f)', 'p = m / (rf + f)', 'Newton step with the wrong radius')
v('C16', 'fire', T_, 'alt = f + 0.5 * m * p', 'alt = f + m * p', 'second-order altitude term')
v('C16', 'fire', T_, 'u = w - rg * c', 'u = w - rf * c', 'residual uses the wrong radius')
v('C16', 'fire', T_, 'np.arctan2(r_e[:, 1], r_e[:, 0])', 'np.arctan2(r_e[:, 0], r_e[:, 1])', 'longitude arguments swapped')
v('C16', 'silent', T_, 'm = c2 > 0.3', 'm = c2 > 0.5', 'branch threshold: both branches are valid everywhere')
v('C16', 'silent', T_, 'rg = a / g**0.5', 'rg = a / np.sqrt(g)', 'sqrt spelling')
v('C16', 'silent', T_, 'a2 = a1 * a1', 'a2 = a1 ** 2', 'square spelling')
v('C14 C11', 'fire', 'inertial_sensor.py', 'self.scale_misal_modelled = bool(output_axes)', 'self.scale_misal_modelled = any(output_axes)', 'seeded C14 round 2: truthiness of index values instead of list length')
v('C14', 'silent', 'inertial_sensor.py', 'self.scale_misal_modelled = bool(output_axes)', 'self.scale_misal_modelled = len(scale_misal_states) > 0', 'length test on the sibling list')
v('C14', 'fire', 'inertial_sensor.py', 'self.scale_misal_modelled = bool(output_axes)', 'self.scale_misal_modelled = sum(input_axes) > 0', 'sum of indices as a non-emptiness test')
_RPH_OLD = "    return Rotation.from_matrix(mat).as_euler('xyz', degrees=True)"
_RPH_NEW = """    mat = np.asarray(mat)
    roll = %s
    pitch = -np.arcsin(mat[..., 2, 0])
    heading = np.arctan2(mat[..., 1, 0], mat[..., 0, 0])
    return np.rad2deg(np.stack((roll, pitch, heading), axis=-1))"""
v('C05 C17', 'fire', 'transform.py', _RPH_OLD, _RPH_NEW % 'np.arctan(mat[..., 2, 1] / mat[..., 2, 2])', 'seeded C05 round 2: closed-form Euler extraction, roll through single-argument arctan')
v('C05 C17 C03 C06 C18', 'silent', 'transform.py', _RPH_OLD, _RPH_NEW % 'np.arctan2(mat[..., 2, 1], mat[..., 2, 2])', 'correct closed-form Euler extraction')
v('C05 C17', 'fire', 'transform.py', _RPH_OLD, _RPH_NEW % 'np.arctan2(mat[..., 2, 2], mat[..., 2, 1])', 'closed-form Euler extraction, arctan2 arguments swapped')
v('C17', 'fire', 'transform.py', _RPH_OLD, "    return Rotation.from_matrix(mat).as_euler('XYZ', degrees=True)", 'intrinsic sequence in the defining inverse')
v('C06 C19', 'fire', 'error_model.py',
  ["    def _transform_3d_2d(self, VN, VE):",
   "        result = np.zeros((3, 9))\n        result[:, self.DR] = np.eye(3)\n        if imu_to_antenna_b is not None:\n            mat_nb = transform.mat_from_rph(pva[RPH_COLS])\n            result[:, self.PHI]"],
  ["    POSITION_JACOBIAN_3D = np.hstack([np.eye(3), np.zeros((3, 6))])\n\n    def _transform_3d_2d(self, VN, VE):",
   "        result = self.POSITION_JACOBIAN_3D\n        if imu_to_antenna_b is not None:\n            mat_nb = transform.mat_from_rph(pva[RPH_COLS])\n            result[:, self.PHI]"],
  'seeded C06 round 2: position Jacobian built in a shared class-level buffer')
v('C08 C10 C11', 'fire', 'filters.py', """        if next_index == index:
            next_index += 1
        next_time = times[next_index]
        time_delta = next_time - time""", """        next_time = times[next_index]
        if next_index == index:
            next_index += 1
        time_delta = next_time - time""", 'seeded C08/C10 round 2: interval end read before the progress guard adjusts the cursor')
_KOLD = """    L = cholesky(S, lower=True)
    K = cho_solve((L, True), HP, overwrite_b=True).T
    U = np.eye(len(x)) - K.dot(H)

    return (x + K @ (z - H @ x), U.dot(P).dot(U.T) + K.dot(R).dot(K.T),
            solve_triangular(L, e, lower=True))"""
_KNEW = """    L = cholesky(S)
    K = cho_solve((L, False), HP, overwrite_b=True).T
    U = np.eye(len(x)) - K.dot(H)

    return (x + K @ (z - H @ x), U.dot(P).dot(U.T) + K.dot(R).dot(K.T),
            %s)"""
v('C07', 'fire', KA, _KOLD, _KNEW % 'solve_triangular(L, e)', 'seeded C07 round 2 (in kind): consistent upper factor, innovation whitened by U instead of U^T')
v('C07', 'silent', KA, _KOLD, _KNEW % "solve_triangular(L, e, trans='T')", 'upper factor used consistently: L^-1 = U^-T')
v('C07', 'silent', KA, _KOLD, _KNEW % 'solve_triangular(L.T, e, lower=True)', 'upper factor transposed explicitly')
v('C07', 'fire', KA, _KOLD, _KNEW % 'solve_triangular(L.T, e)', 'transposed upper factor read through its (empty) upper triangle')
v('C08', 'fire', KA, 'H[n:, n:] = -F.T', 'H[n:, n:] = -F')
v('C08', 'fire', KA, 'H[:n, n:] = Q', 'H[n:, :n] = Q')
v('C08', 'fire', KA, 'H[:n, n:] @ H[:n, :n].T', 'H[:n, n:] @ H[:n, :n]')
v('C08', 'fire', KA, 'H = expm(H * dt)', 'H = expm(H) * dt')
v('C08 C11', 'fire', 'filters.py', 'G @ np.diag(q**2) @ G.transpose()', 'G @ np.diag(q) @ G.transpose()')
# ------------------------------------------------------------------ filters C09 C10 C11 C12
F = 'filters.py'
v('C09 C10', 'fire', F, 'np.hstack([np.empty(0)] + [', 'np.hstack([', 'F1 repair reverted', every=True)
v('C09 C10', 'fire', F, 'np.hstack([np.empty(0)] + [', 'np.hstack([np.empty(1)] + [', 'survey: an uninitialised epoch merged in', every=True)
v('C09 C10', 'silent', F, 'np.hstack([np.empty(0)] + [', 'np.hstack([np.array([])] + [', 'another empty seed', every=True)
v('C09', 'fire', F, '        if next_increment_index == increments_index:\n            next_increment_index += 1\n', '', 'progress guard removed')
v('C09', 'fire', F, 'measurement_times = np.sort(np.unique(measurement_times))', 'measurement_times = np.sort(measurement_times)')
v('C09', 'fire', F, 'innovations_times[name].append(measurement_time)', 'innovations_times[name].append(time)')
v('C09', 'fire', F, 'increments.iloc[increments_index : next_increment_index]', 'increments.iloc[increments_index + 1 : next_increment_index]')
v('C09', 'fire', F, 'while measurement_times[measurement_time_index] < increment.name:', 'while measurement_times[measurement_time_index] <= increment.name:')
v('C09', 'fire', F, 'while measurement_times[measurement_time_index] < increment.name:', 'if measurement_times[measurement_time_index] < increment.name:', 'F6 repair reverted')
v('C09', 'fire', F, '(measurement_times >= start_time)', '(measurement_times > start_time)')
v('C09', 'fire', F, 'increments_index = next_increment_index', 'increments_index = next_increment_index - 1')
v('C09', 'silent', F, '(measurement_times <= end_time)', '(measurement_times < end_time)')
v('C10', 'fire', F, "next_index = np.searchsorted(times, next_time, side='right') - 1", "next_index = np.searchsorted(times, next_time, side='left') - 1")
v('C10', 'fire', F, '        next_time = min(time + time_step,\n                        measurement_times[measurement_time_index])\n        next_index',
  '        next_time = time + time_step\n        next_index')
v('C10', 'fire', F, 'while measurement_times[measurement_time_index] < next_time:', 'if measurement_times[measurement_time_index] < next_time:', 'F6 repair reverted')
v('C10', 'fire', F, '        if next_index == index:\n            next_index += 1\n', '', 'F2 repair reverted')
v('C10', 'fire', F, '        index = next_index', '        index = next_index + 1')
v('C10', 'silent', F, 'if next_index == index:\n            next_index += 1', 'if next_index <= index:\n            next_index = index + 1')
v('C11', 'fire', F, '    F[ins_block, gyro_block] = Fig @ Hg', '    F[ins_block, accel_block] = Fig @ Hg')
v('C11', 'fire', F, '    G[gyro_block, gyro_noise_block] = gyro_model.G', '    G[gyro_block, gyro_noise_block] = accel_model.G')
v('C11', 'fire', F, '    P[accel_block, accel_block] = accel_model.P', '    P[accel_block, accel_block] = gyro_model.P')
v('C11', 'fire', F, 'q = np.hstack((gyro_model.v, accel_model.v, gyro_model.q, accel_model.q))',
  'q = np.hstack((gyro_model.v, gyro_model.q, accel_model.v, accel_model.q))')
v('C11', 'fire', F, 'P[ins_block, ins_block] = T @ P_pva @ T.transpose()', 'P[ins_block, ins_block] = T.transpose() @ P_pva @ T')
v('C11', 'fire', F, '                    H_full[:, inertial_block] = H', '                    H_full[:, 1:1 + H.shape[1]] = H')
v('C11', 'fire', F, '    F[ins_block, accel_block] = Fia @ Ha', '    F[ins_block, accel_block] = Fig @ Ha')
v('C11', 'fire', F, 'P_pva[error_model.DHEADING, error_model.DHEADING] = azimuth_sd ** 2', 'P_pva[error_model.DHEADING, error_model.DHEADING] = level_sd ** 2')
v('C11', 'fire', F, '        P_result,  integrator.trajectory.loc[times_result],\n        error_model, gyro_model, accel_model)',
  '        P_result,  integrator.trajectory.loc[times_result],\n        error_model, accel_model, gyro_model)', 'model arguments swapped at one call site')
v('C12', 'fire', F, '    integrator = strapdown.Integrator(initial_pva, with_altitude)\n    gyro_model.reset_estimates()',
  '    integrator = strapdown.Integrator(initial_pva, with_altitude)')
v('C12 C11', 'fire', F, 'gyro_model.update_estimates(x[gyro_block])', 'gyro_model.update_estimates(x[accel_block])')
# ------------------------------------------------------------------ sensors C14
I = 'inertial_sensor.py'
v('C14', 'fire', I, '                self.transform[axis_out, axis_in] += xi', '                self.transform[axis_in, axis_out] += xi')
v('C14', 'fire', I, 'result += self.noise * dt**0.5 * self.rng.randn', 'result += self.noise * dt * self.rng.randn')
v('C14 C12', 'fire', I, '                self.bias[axis] += xi', '                self.bias[axis] = xi')
v('C14 C12', 'fire', I, '    def reset_estimates(self):\n        self.transform = np.identity(3)\n        self.bias', '    def reset_estimates(self):\n        self.bias')
v('C14', 'fire', I, '            H[output_axes, states] = readings[input_axes]', '            H[input_axes, states] = readings[output_axes]')
v('C14', 'fire', I, '        G = G[:n_states, :n_noises]', '        G = G[:n_states, :n_output_noises]')
v('C14 C12', 'fire', I, '(increments.values - self.bias * dt).T).T', '(increments.values + self.bias * dt).T).T')
v('C14', 'fire', I, '                if scale_misal_sd[output_axis, input_axis] > 0:', '                if scale_misal_sd[input_axis, output_axis] > 0:')
v('C14', 'fire', I, '                    q[n_noises] = bias_walk[axis]\n                    n_noises += 1\n\n                n_states += 1',
  '                    q[n_noises] = bias_walk[axis]\n\n                n_noises += 1\n                n_states += 1')
# ------------------------------------------------------------------ RNG-SEED (round-9 seed C19)
_CRS_OLD = 'from scipy._lib._util import check_random_state\n'
_CRS_BAD = ('import numpy as _np\n\n\ndef check_random_state(seed):\n    if not seed:\n        return _np.random.mtrand._rand\n'
            '    if isinstance(seed, (int, _np.integer)):\n        return _np.random.RandomState(seed)\n'
            '    if isinstance(seed, _np.random.RandomState):\n        return seed\n    raise ValueError("bad seed")\n\n\n')
_CRS_GOOD = _CRS_BAD.replace('if not seed:', 'if seed is None or seed is _np.random:')
_CRS_LEAK = _CRS_BAD.replace('if not seed:', 'if seed is None or seed == 0:')
v('C19 C14', 'fire', 'sim.py', _CRS_OLD, _CRS_BAD, 'seeded C19 round 9: local seed normaliser treats seed 0 as None')
v('C19 C14', 'silent', 'sim.py', _CRS_OLD, _CRS_GOOD, 'local seed normaliser with the library helper\'s own tests')
v('C19 C14', 'fire', 'sim.py', _CRS_OLD, _CRS_LEAK, 'global stream also for seed 0, spelled as a comparison')
v('C19 C14', 'fire', 'inertial_sensor.py', '        self.rng = check_random_state(rng)', '        self.rng = check_random_state(rng or None)', 'seed tested by truth value at the call site')
# ------------------------------------------------------------------ EMPTY-GUARD (round-9 seed C09)
_EG_OLD = ('        if innovation:\n            columns = measurement.data.columns[:len(innovation[0])]\n'
           '        else:\n            columns = measurement.data.columns\n')
v('C09 C10', 'fire', 'filters.py', _EG_OLD, '        innovation = np.asarray(innovation)\n        columns = measurement.data.columns[:innovation.shape[1]]\n',
  'seeded C09 round 9: second dimension of an empty innovation list', every=True)
v('C09 C10', 'fire', 'filters.py', _EG_OLD, '        columns = measurement.data.columns[:len(innovation[0])]\n',
  'first element of a possibly empty innovation list', every=True)
v('C09 C10', 'silent', 'filters.py', _EG_OLD, '        if len(innovation) > 0:\n            columns = measurement.data.columns[:len(innovation[0])]\n'
  '        else:\n            columns = measurement.data.columns\n', 'emptiness tested through len', every=True)
v('C09 C10', 'silent', 'filters.py', _EG_OLD, '        if not innovation:\n            columns = measurement.data.columns\n'
  '        else:\n            columns = measurement.data.columns[:len(innovation[0])]\n', 'arms exchanged', every=True)
# ------------------------------------------------------------------ partial lever arm (round-9 seed C06)
_LV_OLD = '        if imu_to_antenna_b is not None and all(col in pva for col in RATE_COLS):\n'
v('C06', 'fire', 'error_model.py', _LV_OLD, '        has_lever_arm = imu_to_antenna_b is not None and np.all(imu_to_antenna_b)\n        if has_lever_arm and all(col in pva for col in RATE_COLS):\n',
  'seeded C06 round 9: a lever arm with a zero component is taken as absent in H only')
v('C06', 'silent', 'error_model.py', _LV_OLD, '        has_lever_arm = imu_to_antenna_b is not None and np.any(imu_to_antenna_b)\n        if has_lever_arm and all(col in pva for col in RATE_COLS):\n',
  'an all-zero lever arm skipped: the term it skips is zero')
v('C06', 'fire', 'error_model.py', '        if imu_to_antenna_b is not None:\n            mat_nb = transform.mat_from_rph(pva[RPH_COLS])\n            result[:, self.PHI]',
  '        if imu_to_antenna_b is not None and np.all(imu_to_antenna_b):\n            mat_nb = transform.mat_from_rph(pva[RPH_COLS])\n            result[:, self.PHI]',
  'same guard in the position Jacobian')
# ------------------------------------------------------------------ cho_factor (round-9 seed C11)
_CF_OLD = ["from scipy.linalg import cholesky, cho_solve, solve_triangular, expm", "    L = cholesky(S, lower=True)\n    K = cho_solve((L, True), HP, overwrite_b=True).T", "            solve_triangular(L, e, lower=True))"]
v('C11 C07', 'fire', 'kalman.py', _CF_OLD, ["from scipy.linalg import cho_factor, cho_solve, solve_triangular, expm", "    c, lower = cho_factor(S)\n    K = cho_solve((c, lower), HP, overwrite_b=True).T", "            solve_triangular(c, e, lower=lower))"],
  'seeded C11 round 9: cho_factor returns the upper factor, the innovation is whitened by it')
v('C11 C07', 'silent', 'kalman.py', _CF_OLD, ["from scipy.linalg import cho_factor, cho_solve, solve_triangular, expm", "    c, lower = cho_factor(S, lower=True)\n    K = cho_solve((c, lower), HP, overwrite_b=True).T", "            solve_triangular(c, e, lower=lower))"],
  'cho_factor asked for the lower factor')
# ------------------------------------------------------------------ round-9 seeds as patches (must fire)
vp('C01 C02', 'fire', 'seeded/C01-output-roll-single-arctan/patch.diff', 'round-9 seed C01: output roll by single-argument arctan')
vp('C04', 'fire', 'seeded/C04-propagation-first-interval-only/patch.diff', 'round-9 seed C04: every interval propagated over the first gap')
vp('C07', 'fire', 'seeded/C07-sparse-mask-by-column-sum/patch.diff', 'round-9 seed C07: observed states selected by the column sums of H')
vp('C08', 'fire', 'seeded/C08-stale-process-cache/patch.diff', 'round-9 seed C08: one-entry cache keyed by the argument arrays')
vp('C13 C05', 'fire', 'seeded/C13-standstill-shortcut-by-tolerance/patch.diff', 'round-9 seed C13: velocity coupling skipped under a tolerance test')
vp('C16', 'fire', 'seeded/C16-scalar-flag-from-latitude-only/patch.diff', 'round-9 seed C16: single-item form decided by one of two broadcast arguments')
vp('C17', 'fire', 'seeded/C17-memo-aliased-key/patch.diff', 'round-9 seed C17: memo keyed by the argument array itself')
vp('C18', 'fire', 'seeded/C18-allclose-same-grid/patch.diff', 'round-9 seed C18: resampling skipped when the indices are allclose')
vp('C10', 'fire', 'seeded/C10-empty-innovations-shape/patch.diff', 'round-9 seed C10: second dimension of an empty innovation list')
# ------------------------------------------------------------------ FIELD-STATE (sixth session)
_FS_OLD = "        result = self._transform_to_output_3d(trajectory)\n        if not self.with_altitude:"
v('C05 C04 C13', 'fire', 'error_model.py', _FS_OLD, "        if getattr(self, '_last_trajectory', None) is trajectory:\n            return self._last_T\n        result = self._transform_to_output_3d(trajectory)\n        self._last_trajectory = trajectory\n        self._last_T = result\n        if not self.with_altitude:",
  'memo in the instance keyed by the identity of the argument')
# ------------------------------------------------------------------ TAIL-SLICE concat keywords (sixth session)
v('C02 C01', 'fire', 'strapdown.py', 'self.trajectory = pd.concat([self.trajectory, trajectory])', 'self.trajectory = pd.concat([self.trajectory, trajectory], ignore_index=True)', 'rows renumbered: the time index is lost')
v('C02 C01', 'silent', 'strapdown.py', 'self.trajectory = pd.concat([self.trajectory, trajectory])', 'self.trajectory = pd.concat([self.trajectory, trajectory], axis=0, copy=False)', 'harmless keywords')
# ------------------------------------------------------------------ hand-made probes, sixth session
v('C09 C10', 'fire', 'filters.py', '    measurement_times = np.sort(np.unique(measurement_times))', '    measurement_times = np.unique(np.round(measurement_times, 3))', 'epochs rounded: not elements of the measurement indices any more', every=True)
v('C09 C10', 'silent', 'filters.py', '    measurement_times = np.sort(np.unique(measurement_times))', '    measurement_times = np.array(sorted(set(measurement_times.tolist())))', 'de-duplicated through a set', every=True)
v('C04', 'fire', 'error_model.py', '    Phi[:] += np.identity(Phi.shape[-1])', '    Phi[0] += np.identity(Phi.shape[-1])', 'identity added to the first interval only')
v('C04', 'silent', 'error_model.py', '    Phi[:] += np.identity(Phi.shape[-1])', '    Phi += np.identity(Phi.shape[-1])', 'whole-array update without a slice')
v('C04', 'fire', 'error_model.py', '    if pva_error is None:\n        pva_error = pd.Series', '    if pva_error is not None:\n        pva_error = pd.Series', 'survey: default installed under the negated test')
v('C04', 'fire', 'error_model.py', 'pva_error = pd.Series(data=np.zeros(9), index=TRAJECTORY_ERROR_COLS)', 'pva_error = pd.Series(data=np.zeros(9))', 'survey: default initial error without labels')
v('C04', 'fire', 'error_model.py', 'model_error = pd.DataFrame(data=x, index=trajectory.index,', 'model_error = pd.DataFrame(data=x,', 'survey: result table not stamped with the trajectory times')
v('C18', 'fire', 'transform.py', '        columns = first.columns.intersection(second.columns)', '        columns = first.columns.union(second.columns)', 'union instead of intersection of the column sets')
v('C18', 'silent', 'transform.py', '        columns = first.columns.intersection(second.columns)', '        columns = first.columns & second.columns', 'intersection spelled with &')
v('C01 C02 C15', 'fire', 'strapdown.py', "        theta = np.ascontiguousarray(increments[['theta_x', 'theta_y', 'theta_z']])", "        theta = np.ascontiguousarray(increments[['theta_x', 'theta_y', 'theta_z']], dtype=np.float32)", 'increments narrowed to single precision')
v('C01 C02', 'silent', 'strapdown.py', "        theta = np.ascontiguousarray(increments[['theta_x', 'theta_y', 'theta_z']])", "        theta = np.ascontiguousarray(increments[['theta_x', 'theta_y', 'theta_z']], dtype=float)", 'explicit double')
# ------------------------------------------------------------------ survey (new operators), sixth session
v('C09 C10', 'fire', 'filters.py', '    if measurements is None:', '    if measurements is not None:', 'survey: default installed under the negated test', every=True)
v('C09 C10', 'fire', 'filters.py', '    gyro_sd = pd.DataFrame(gyro_sd, index=trajectory.index, columns=gyro_model.states)', '    gyro_sd = pd.DataFrame(gyro_sd, columns=gyro_model.states)', 'survey: result table without its time index')
v('C10', 'fire', 'filters.py', '    gyro = pd.DataFrame(x_gyro, index=trajectory.index, columns=gyro_model.states)', '    gyro = pd.DataFrame(x_gyro, columns=gyro_model.states)', 'survey: result table without its time index')
v('C09 C10', 'silent', 'filters.py', '    gyro_sd = pd.DataFrame(gyro_sd, index=trajectory.index, columns=gyro_model.states)', '    gyro_sd = pd.DataFrame(gyro_sd, trajectory.index, gyro_model.states)', 'index and columns passed by position')
v('C13 C01', 'fire', 'strapdown.py', '                  self.mat_nb, theta, dv, n_data - 1, self.with_altitude)', '                  self.mat_nb, theta, dv, n_data - 1, True)', 'probe: the kernel is run with altitude whatever the stored mode')
# ------------------------------------------------------------------ round-10 seeds (must fire) and twins
vp('C01 C02', 'fire', 'seeded/C01-buffers-inherit-pva-dtype/patch.diff', 'round-10 seed C01: state buffers pre-filled by np.full inherit the dtype of the initial Pva')
vp('C01 C02 C13', 'silent', 'refactors/T02-C01-prefilled-buffers-float.diff', 'twin: the same pre-fill with dtype=float')
vp('C02', 'fire', 'seeded/C02-integrate-drops-stale-labels/patch.diff', 'round-10 seed C02: integrate filters the increments by time label')
vp('C07', 'fire', 'seeded/C07-diagonal-shortcut-relative-tolerance/patch.diff', 'round-10 seed C07: diagonal-S shortcut gated by a tolerance')
vp('C09', 'fire', 'seeded/C09-accel-block-from-the-end/patch.diff', 'round-10 seed C09: accel block addressed from the end by a size that may be zero')
vp('C18', 'fire', 'seeded/C18-stale-index-after-swap/patch.diff', 'round-10 seed C18: span bounds from an index cached before the operands were exchanged')
vp('C13', 'fire', 'seeded/C13-predict-on-stale-scratch/patch.diff', 'round-10 seed C13: predict on a scratch buffer that set_pva does not refresh')
vp('C19', 'fire', 'seeded/C19-imu-columns-by-position/patch.diff', 'round-10 seed C19: Imu columns taken by position')
vp('C06', 'fire', 'seeded/C06-antenna-position-written-into-pva/patch.diff', 'round-10 seed C06: antenna position written back into the caller\'s pva')
v('C18', 'fire', 'transform.py', "    interpolator = interp1d(state.index, state[other_columns].values, axis=0)", "    interpolator = interp1d(state.index, state[other_columns].values, axis=0, kind='nearest')", 'probe: nearest-neighbour instead of linear interpolation')
v('C18', 'silent', 'transform.py', "    interpolator = interp1d(state.index, state[other_columns].values, axis=0)", "    interpolator = interp1d(state.index, state[other_columns].values, axis=0, kind='linear')", 'kind spelled out')
v('C19 C16', 'fire', 'transform.py', '    return pd.DataFrame(r_n, index=time, columns=NED_COLS) if is_dataframe else r_n', '    return pd.DataFrame(r_n, columns=NED_COLS) if is_dataframe else r_n', 'probe: returned table without its time index')
v('C05 C19', 'fire', 'error_model.py', '        return pd.Series(data=np.hstack((lla, velocity_n, rph)), index=pva.index)', '        return pd.Series(data=np.hstack((lla, velocity_n, rph)))', 'survey: corrected Pva returned without labels')
# ------------------------------------------------------------------ geometry C16 C05 C04 C03 C18
T = 'transform.py'
v('C16 C05', 'fire', T, '    rn, _, rp = earth.principal_radii(lla[:, 0], lla[:, 2])\n\n    lla[:, 0] +=',
  '    rn, rp, _ = earth.principal_radii(lla[:, 0], lla[:, 2])\n\n    lla[:, 0] +=', 'rp <-> re in perturb_lla')
v('C16', 'fire', T, '    result[:, 1] = np.deg2rad(diff[:, 1]) * rp', '    result[:, 1] = diff[:, 1] * rp')
v('C16', 'fire', 'earth.py', 'result[:, 2, 1] = -result[:, 0, 1] * np.tan(np.deg2rad(lat))', 'result[:, 2, 1] = -result[:, 0, 1] * np.sin(np.deg2rad(lat))')
v('C16', 'fire', T, 'r_n = util.mv_prod(mat_en, r_e, True)', 'r_n = util.mv_prod(mat_en, r_e)')
v('C16', 'fire', T, 'r_e[2] = ((1 - earth.E2) * re + alt) * sin_lat', 'r_e[2] = (re + alt) * sin_lat')
v('C16 C03', 'fire', 'earth.py', 'g0_g[0] = RATE**2 * rp * sin_lat', 'g0_g[0] = -RATE**2 * rp * sin_lat')
v('C16', 'fire', 'earth.py', 'result[:, 2] = -RATE * np.sin(np.deg2rad(lat))', 'result[:, 2] = RATE * np.sin(np.deg2rad(lat))')
v('C16', 'fire', 'earth.py', 'result[:, 1, 0] = -1 / rn', 'result[:, 1, 0] = -1 / re')
v('C16', 'fire', 'filters.py', 'rn, _, rp = earth.principal_radii(trajectory_nominal.lat, trajectory_nominal.alt)',
  'rn, rp, _ = earth.principal_radii(trajectory_nominal.lat, trajectory_nominal.alt)')
E = 'error_model.py'
v('C05 C17', 'fire', E, '    result[:, 1, 0] = sin[:, 2]', '    result[:, 1, 0] = -sin[:, 2]', 'Euler-Jacobian entry sign')
v('C05', 'fire', E, 'result = np.linalg.inv(self._transform_to_output_3d(pva))', 'result = self._transform_to_output_3d(pva).transpose()')
v('C05', 'fire', E, 'velocity_n = mat_tp @ (pva[VEL_COLS] - x[self.DV])', 'velocity_n = mat_tp @ (pva[VEL_COLS] + x[self.DV])')
v('C05', 'fire', E, 'rph = transform.mat_to_rph(mat_tp @ transform.mat_from_rph(pva[RPH_COLS]))',
  'rph = transform.mat_to_rph(mat_tp.T @ transform.mat_from_rph(pva[RPH_COLS]))')
v('C05', 'fire', E, 'lla = transform.perturb_lla(pva[LLA_COLS], -x[self.DR])', 'lla = transform.perturb_lla(pva[LLA_COLS], x[self.DR])')
v('C05 C17', 'fire', E, '    result *= transform.RAD_TO_DEG\n', '')
v('C04', 'fire', E, 'util.mm_prod(V_skew, mat_nb)', 'util.mm_prod(mat_nb, V_skew)')
v('C04', 'fire', E, '2 * earth.gravity(trajectory.lat, 0) / earth.A', '2 * earth.gravity(trajectory.lat, 0)')
v('C04', 'fire', E, 'F[np.ix_(samples, self.PHI, self.DV)] = R', 'F[np.ix_(samples, self.PHI, self.DV)] = util.mm_prod(util.skew_matrix(Omega_n), R)')
v('C04', 'fire', E, 'T_3d_2d = self._transform_3d_2d(trajectory.VN, trajectory.VE)', 'T_3d_2d = self._transform_3d_2d(trajectory.VE, trajectory.VN)')
v('C04', 'silent', E, '            B_gyro = util.mm_prod(T_2d_3d, B_gyro)\n', '            B_gyro = B_gyro[[0, 1, 3, 4, 6, 7, 8]] * 1.0\n', 'row selection == S @ B')
SI = 'sim.py'
v('C03', 'fire', SI, 'v_i = util.mv_prod(mat_in, velocity_n) + np.cross(earth_rate_i, r_i)', 'v_i = util.mv_prod(mat_in, velocity_n)')
v('C03', 'fire', SI, 'accel = util.mv_prod(mat_ib, v_i_spline(time, 1) - g_i, at=True)', 'accel = util.mv_prod(mat_ib, v_i_spline(time, 1) - g_i)')
v('C03', 'fire', SI, 'lla_inertial[:, 1] += np.rad2deg(earth.RATE) * time', 'lla_inertial[:, 1] += earth.RATE * time')
v('C03', 'fire', SI, 'mat_ib = util.mm_prod(mat_in, transform.mat_from_rph(rph))', 'mat_ib = util.mm_prod(transform.mat_from_rph(rph), mat_in)')
v('C03', 'fire', SI, 'omega[3] = -ac + np.cross(a, ab) / 6', 'omega[3] = -ac + np.cross(a, ab) / 3')
v('C03', 'fire', SI, 'f[5] = 0.5 * (np.cross(a, ce)', 'f[5] = 0.25 * (np.cross(a, ce)')
v('C03', 'fire', SI, '        accels += f[k] / (k + 1)', '        accels += f[k] / (k + 2)')
v('C18', 'fire', T, '            result_sign = -1.0\n            first, second = second, first', '            result_sign = 1.0\n            first, second = second, first')
v('C18', 'fire', T, '            result_sign = -1.0\n            first, second = second, first', '            result_sign = -1.0')
v('C18', 'fire', T, 'difference = first - second', 'difference = second - first')
v('C18', 'fire', 'util.py', '        result[result > 180] -= 360', '        result[result >= 180] -= 360')
v('C18', 'fire', 'util.py', 'result = angle % 360', 'result = angle % 180')
v('C18', 'fire', 'util.py', '    elif result > 180:\n        result -= 360', '    elif result > 180:\n        result -= 180')
v('C18', 'fire', T, '    times = times[(times >= state.index[0]) & (times <= state.index[-1])]\n\n    result = pd.DataFrame(index=times)',
  '\n    result = pd.DataFrame(index=times)')
v('C18', 'fire', T, '    return result[state.columns]', '    return result')
v('C18', 'fire', T, '        difference.alt *= -1', '        difference.alt *= 1')
v('C18', 'silent', 'util.py', 'result = angle % 360', 'result = np.mod(angle, 360)')
# DIFF-SCALE (sixth session; survey survivors: the metre factors of the state difference)
v('C18', 'fire', T, 'difference.lat *= rn * DEG_TO_RAD', 'difference.lat *= rn / DEG_TO_RAD', 'survey: degree factor inverted')
v('C18', 'fire', T, 'difference.lon *= rp * DEG_TO_RAD', 'difference.lon *= rp * RAD_TO_DEG', 'wrong conversion constant')
v('C18', 'fire', T, 'difference.lon *= rp * DEG_TO_RAD', 'difference.lon *= rp', 'degrees taken as radians')
v('C18', 'silent', T, 'difference.lat *= rn * DEG_TO_RAD', 'difference.lat *= np.deg2rad(rn)', 'deg2rad spelling of the factor')
v('C18', 'silent', T, 'difference.lat *= rn * DEG_TO_RAD', 'difference.lat *= rn\n        difference.lat /= RAD_TO_DEG', 'factor applied in two steps')
# ------------------------------------------------------------------ purity C19
v('C19', 'fire', T, 'lla = np.atleast_2d(lla).copy()', 'lla = np.atleast_2d(lla)')
v('C19', 'fire', T, 'result = trajectory.copy()\n    result[LLA_COLS]', 'result = trajectory\n    result[LLA_COLS]')
v('C19', 'fire', SI, 'lla_inertial = lla.copy()', 'lla_inertial = lla')
v('C19', 'fire', SI, 'result = pva.copy()', 'result = pva')
v('C19', 'fire', S, 'self.initial_pva = pva.copy()', 'self.initial_pva = pva')
v('C19', 'fire', E, 'velocity_n = pva[VEL_COLS].values.copy()', 'velocity_n = pva[VEL_COLS].values')
v('C19', 'silent', F, '    trajectory = trajectory.copy()\n    trajectory.lat -=', '    trajectory.lat -=', 'protected by .loc[list] / copy-on-write')
v('C19', 'silent', F, 'result = increments.copy()', 'result = increments', 'protected by copy-on-write')
v('C19 C14', 'fire', SI, 'error = error_sd * rng.randn(len(trajectory), 3)\n    lla', 'error = error_sd * np.random.randn(len(trajectory), 3)\n    lla')
v('C19', 'fire', E, '    gyro_error = util.mv_prod(Fig, gyro_error)', '    gyro_error += 0.0\n    gyro_error = util.mv_prod(Fig, gyro_error)', 'default-argument array written')
v('C19', 'fire', E, '            T_2d_3d = self.TRANSFORM_2D_3D\n', '            T_2d_3d = self.TRANSFORM_2D_3D\n            T_2d_3d[0, 0] = 1\n')
v('C19', 'fire', SI, 'columns=GYRO_COLS + ACCEL_COLS))', 'columns=ACCEL_COLS + GYRO_COLS))')
v('C19', 'fire', I, '        result = util.mv_prod(self.transform, readings)', '        self.transform += 0\n        result = util.mv_prod(self.transform, readings)')
v('C19', 'fire', 'util.py', '    vec = np.atleast_2d(vec)\n    result = np.zeros((n, 3, 3))', '    vec = np.atleast_2d(vec)\n    vec *= 1.0\n    result = np.zeros((n, 3, 3))')


# ------------------------------------------------------------------ later additions
v('C06', 'silent', M, '''        z = pva[VEL_COLS] - self.data.loc[time, VEL_COLS]
        if self.imu_to_antenna_b is not None and all(col in pva for col in RATE_COLS):
            mat_nb = transform.mat_from_rph(pva[RPH_COLS])
            z += mat_nb @ np.cross(pva[RATE_COLS], self.imu_to_antenna_b)''', '''        pva_ant = pva
        if self.imu_to_antenna_b is not None:
            pva_ant = transform.translate_trajectory(pva, self.imu_to_antenna_b)
        z = pva_ant[VEL_COLS] - self.data.loc[time, VEL_COLS]''', 'residual through translate_trajectory (same behaviour)')
v('C06', 'fire', M, '''        z = pva[VEL_COLS] - self.data.loc[time, VEL_COLS]
        if self.imu_to_antenna_b is not None and all(col in pva for col in RATE_COLS):
            mat_nb = transform.mat_from_rph(pva[RPH_COLS])
            z += mat_nb @ np.cross(pva[RATE_COLS], self.imu_to_antenna_b)''', '''        if self.imu_to_antenna_b is not None:
            pva = transform.translate_trajectory(pva, self.imu_to_antenna_b)
        z = pva[VEL_COLS] - self.data.loc[time, VEL_COLS]''', 'seeded C06: lever arm counted twice in H')
v('C09 C10', 'fire', F, '''        if isinstance(innovation, pd.DataFrame):
            continue
''', '', 'F5 repair reverted', every=True)
v('C14', 'silent', I, '''            items = state.split("_")
            if items[0] == 'bias':
                axis = XYZ_TO_INDEX[items[1]]
                self.bias[axis] += xi
            elif items[0] == 'sm':
                axis_out = XYZ_TO_INDEX[items[1][0]]
                axis_in = XYZ_TO_INDEX[items[1][1]]''', '''            parts = state.split("_")
            if parts[0] == 'bias':
                axis = XYZ_TO_INDEX[parts[1]]
                self.bias[axis] += xi
            elif parts[0] == 'sm':
                axis_out = XYZ_TO_INDEX[parts[1][0]]
                axis_in = XYZ_TO_INDEX[parts[1][1]]''', 'local renamed')
v('C18', 'silent', T, '''    other_columns = state.columns.difference(RPH_COLS)
    interpolator = interp1d(state.index, state[other_columns].values, axis=0)
    result[other_columns] = interpolator(times)''', '''    others = state.columns.difference(RPH_COLS)
    lin = interp1d(state.index, state[others].values, axis=0)
    result[others] = lin(times)''', 'locals renamed')
v('C03', 'silent', SI, '''        a_s = v_i_spline.derivative()
        d = a_s.c[1] - g_i[:-1]
        e = a_s.c[0] - np.diff(g_i, axis=0) / dt''', '''        acc_spline = v_i_spline.derivative()
        d = acc_spline.c[1] - g_i[:-1]
        e = acc_spline.c[0] - np.diff(g_i, axis=0) / dt''', 'local renamed')
v('C02 C13', 'fire', S, '''        if not self.with_altitude:
            pva = pva.copy()
            pva.VD = 0.0
        i = len(self.trajectory) - 1
        self.lla[i] = pva[LLA_COLS]
        self.velocity_n[i] = pva[VEL_COLS]
        self.mat_nb[i] = transform.mat_from_rph(pva[RPH_COLS])
''', '''        i = len(self.trajectory) - 1
        self.lla[i] = pva[LLA_COLS]
        self.velocity_n[i] = pva[VEL_COLS]
        self.mat_nb[i] = transform.mat_from_rph(pva[RPH_COLS])
        if not self.with_altitude:
            pva = pva.copy()
            pva.VD = 0.0
''', 'seeded C02: zeroing moved below the buffer writes')
v('C05 C17', 'fire', E, '    result[:, 0, 1] = -sin[:, 2] / cos[:, 1]', '    result[:, 0, 1] = -sin[:, 2] / cos[:, 0]', 'seeded C05: cos(roll) instead of cos(pitch)')


v('C11', 'silent', F, '        x = Phi @ x\n        P = Phi @ P @ Phi.transpose() + Qd', '        x = Phi.dot(x)\n        P = Phi.dot(P).dot(Phi.T) + Qd', 'dot/.T spelling')
v('C05', 'silent', E, """        result = np.linalg.inv(self._transform_to_output_3d(pva))
        if not self.with_altitude:
            result = self.TRANSFORM_2D_3D @ result
        return result""", """        T = np.linalg.inv(self._transform_to_output_3d(pva))
        if not self.with_altitude:
            T = self.TRANSFORM_2D_3D @ T
        return T""", 'local renamed')
v('C07', 'silent', KA, 'U.dot(P).dot(U.T) + K.dot(R).dot(K.T)', '(P - K.dot(H.dot(P))).dot(U.T) + K.dot(R).dot(K.T)', 'Joseph form with (I-KH)P expanded, HP recomputed')
v('C07', 'fire', KA, 'U.dot(P).dot(U.T) + K.dot(R).dot(K.T)', '(P - K.dot(HP)).dot(U.T) + K.dot(R).dot(K.T)', 'seeded C07: HP reused after overwrite_b=True')
v('C01 C04', 'fire', K, """        sin_lat = np.sin(lat * transform.DEG_TO_RAD)
        cos_lat = np.sqrt(1 - sin_lat * sin_lat)""", """        cos_lat = np.cos(lat * transform.DEG_TO_RAD)
        sin_lat = np.sqrt(1 - cos_lat * cos_lat)""", 'seeded C01: sign of sin(lat) lost')
v('C04 C16 C01', 'fire', 'earth.py', """    result[:, 0] = RATE * np.cos(np.deg2rad(lat))
    result[:, 2] = -RATE * np.sin(np.deg2rad(lat))""", """    cos_lat = np.cos(np.deg2rad(lat))
    sin_lat = np.sqrt(1 - cos_lat**2)
    result[:, 0] = RATE * cos_lat
    result[:, 2] = -RATE * sin_lat""", 'seeded C04: rate_n loses the sign of sin(lat)')
v('C03', 'fire', SI, """        velocity_n = util.mv_prod(
            mat_in, v_i_spline(time) - np.cross(earth_rate_i, r_i), True)""", """        mat_en = transform.mat_en_from_ll(lla[:, 0], lla[:, 1])
        velocity_n = util.mv_prod(
            mat_en, v_i_spline(time) - np.cross(earth_rate_i, r_i), True)""", 'seeded C03: wrong frame matrix in the position-only form')


v('C09', 'silent', F, """    measurement_times = np.hstack([np.empty(0)] + [
        np.asarray(measurement.data.index) for measurement in measurements])
    measurement_times = np.sort(np.unique(measurement_times))

    start_time = initial_pva.name""", """    measurement_times = np.unique(np.hstack([np.empty(0)] + [
        np.asarray(measurement.data.index) for measurement in measurements]))

    start_time = initial_pva.name""", 'np.unique already sorts')
v('C09', 'fire', F, """    measurement_times = np.hstack([np.empty(0)] + [
        np.asarray(measurement.data.index) for measurement in measurements])
    measurement_times = np.sort(np.unique(measurement_times))

    start_time = initial_pva.name""", """    measurement_times = np.sort(np.hstack([np.empty(0)] + [
        np.unique(measurement.data.index) for measurement in measurements]))

    start_time = initial_pva.name""", 'seeded C09: de-duplication per stream only')
v('C08', 'fire', KA, 'H = np.zeros((2 * n, 2 * n))', 'H = np.zeros((2 * n, 2 * n), dtype=F.dtype)', 'seeded C08: work matrix inherits the dtype of F')
v('C19 C16', 'fire', T, 'result = np.empty_like(diff, dtype=float)', 'result = np.empty_like(diff)', 'F7 repair reverted')
# round-6 seeds C01 (regime clamp inside the domain), C13 (labels of the new rows from a run-time
# object), C10 (window applied to the caller's measurement objects), C18 (dropped defensive copy)
v('C01', 'fire', K, 'transform.RAD_TO_DEG * rho1 / cos_lat * dt', 'transform.RAD_TO_DEG * rho1 / max(cos_lat, 0.1) * dt',
  'round-6 seed: 1/cos(lat) clamped at 84.3 deg')
v('C01', 'fire', K, 'transform.RAD_TO_DEG * rho1 / cos_lat * dt', 'transform.RAD_TO_DEG * rho1 / np.maximum(0.1, cos_lat) * dt')
v('C01 C02 C13', 'fire', S, 'index=increments.index, columns=TRAJECTORY_COLS)', 'index=increments.index, columns=self.trajectory.columns)',
  'round-6 seed C13: positional data labelled with the initial Pva label order')
v('C10 C11 C19', 'fire', F,
  ["    measurement_times = np.hstack([np.empty(0)] + [\n        np.asarray(measurement.data.index) for measurement in measurements])\n    measurement_times = np.sort(np.unique(measurement_times))\n\n    start_time = times[0]\n    end_time = times[-1]\n    measurement_times = measurement_times[(measurement_times >= start_time) &\n                                          (measurement_times <= end_time)]\n"],
  ["    start_time = times[0]\n    end_time = times[-1]\n    for measurement in measurements:\n        in_span = ((measurement.data.index >= start_time) &\n                   (measurement.data.index <= end_time))\n        measurement.data = measurement.data[in_span]\n\n    measurement_times = np.hstack([np.empty(0)] + [\n        np.asarray(measurement.data.index) for measurement in measurements])\n    measurement_times = np.sort(np.unique(measurement_times))\n"],
  'round-6 seed C10: the window is applied to the caller\'s measurement objects')
v('C18 C05 C19', 'fire', T, ['    lla = np.asarray(lla, dtype=float)\n    dr_n = np.asarray(dr_n)\n', '    lla = np.atleast_2d(lla).copy()\n    dr_n = np.atleast_2d(dr_n)\n'],
  ["    lla = np.require(lla, dtype=float, requirements='W')\n    dr_n = np.asarray(dr_n)\n", '    lla = np.atleast_2d(lla)\n    dr_n = np.atleast_2d(dr_n)\n'],
  'round-6 seed C18: perturb_lla perturbs a writeable float array in place')
v('C18', 'silent', T, ['    lla = np.asarray(lla, dtype=float)\n    dr_n = np.asarray(dr_n)\n'],
  ["    lla = np.require(lla, dtype=float)\n    dr_n = np.asarray(dr_n)\n"], 'np.require followed by the copy')
# round-6 seeds C15 (boundary row), C16 (batch collapsed onto its first sample), C17 (pole of the
# closed form at a half turn), C19 (parameter-table labels transposed)
_CS_OLD = ("        coning = np.cross(gyro[:-1], gyro[1:]) / 12\n"
           "        sculling = (np.cross(gyro[:-1], accel[1:]) +\n"
           "                    np.cross(accel[:-1], gyro[1:])) / 12\n")
v('C15', 'fire', S, _CS_OLD,
  "        gyro_previous = np.vstack((gyro[1:2], gyro[1:-1]))\n"
  "        accel_previous = np.vstack((accel[1:2], accel[1:-1]))\n"
  "        coning = np.cross(gyro_previous, gyro_increment) / 12\n"
  "        sculling = (np.cross(gyro_previous, accel_increment) +\n"
  "                    np.cross(accel_previous, gyro_increment)) / 12\n",
  'round-6 seed C15: the before-sample is ignored, row 0 pairs the first increment with itself')
v('C15', 'silent', S, _CS_OLD,
  "        gyro_previous = np.vstack((gyro[0:1], gyro[1:-1]))\n"
  "        accel_previous = np.vstack((accel[:1], accel[1:-1]))\n"
  "        coning = np.cross(gyro_previous, gyro_increment) / 12\n"
  "        sculling = (np.cross(gyro_previous, accel_increment) +\n"
  "                    np.cross(accel_previous, gyro_increment)) / 12\n",
  'the same rows, stacked from two pieces')
v('C16', 'fire', 'earth.py', 'result[:, 2, 1] = -result[:, 0, 1] * np.tan(np.deg2rad(lat))',
  'result[:, 2, 1] = -result[0, 0, 1] * np.tan(np.deg2rad(lat))', 'round-6 seed C16: 1/re of the first sample for the whole batch')
v('C17 C01', 'fire', K, '        k2 = (1 - np.cos(norm)) / norm2\n', '        k2 = k1 * k1 / (1 + cos)\n',
  'round-6 seed C17: identity with a pole at |rv| = pi')
v('C17', 'fire', K, '        k1 = np.sin(norm) / norm\n', '        k1 = np.tan(norm) * cos / norm\n', 'identity with poles at odd multiples of pi/2')
v('C17', 'silent', K, '        k2 = (1 - np.cos(norm)) / norm2\n', '        k2 = 2 * np.sin(0.5 * norm) ** 2 / norm2\n', 'half-angle form, no pole')
_SMT_OLD = ("        for axis_out in range(3):\n"
            "            for axis_in in range(3):\n"
            "                nominal = 1 if axis_out == axis_in else 0\n"
            "                actual = self.transform[axis_out, axis_in]\n"
            "                if actual != nominal:\n"
            "                    self.data_frame[(f\"sm_{INDEX_TO_XYZ[axis_out]}\"\n"
            "                                    f\"{INDEX_TO_XYZ[axis_in]}\")] = actual - nominal\n")
v('C19 C14', 'fire', IS, _SMT_OLD,
  "        scale_misal = self.transform - np.identity(3)\n"
  "        for axis_in, axis_out in zip(*np.nonzero(scale_misal)):\n"
  "            name = f\"sm_{INDEX_TO_XYZ[axis_out]}{INDEX_TO_XYZ[axis_in]}\"\n"
  "            self.data_frame[name] = scale_misal[axis_in, axis_out]\n",
  'round-6 seed C19: (row, column) of np.nonzero unpacked as (in, out)')
v('C19 C14', 'silent', IS, _SMT_OLD,
  "        scale_misal = self.transform - np.identity(3)\n"
  "        for axis_out, axis_in in zip(*np.nonzero(scale_misal)):\n"
  "            name = f\"sm_{INDEX_TO_XYZ[axis_out]}{INDEX_TO_XYZ[axis_in]}\"\n"
  "            self.data_frame[name] = scale_misal[axis_out, axis_in]\n",
  'the same table through np.nonzero')
# round-6 seed C14: inverse of the transform cached on demand, not invalidated by reset_estimates
_LC_A = ("        self.transform = np.identity(3)\n        self.bias = np.zeros(3)\n\n    @staticmethod\n")
_LC_B = ("                self.transform[axis_out, axis_in] += xi\n")
_LC_C = ("        corrected = np.linalg.solve(self.transform,\n"
         "                                    (increments.values - self.bias * dt).T).T\n")
_LC_D = ("    def reset_estimates(self):\n        self.transform = np.identity(3)\n        self.bias = np.zeros(3)\n")
_LC_A2 = _LC_A.replace("\n\n    @staticmethod", "\n        self._transform_inv = None\n\n    @staticmethod")
_LC_B2 = _LC_B + "                self._transform_inv = None\n"
_LC_C2 = ("        if self._transform_inv is None:\n"
          "            self._transform_inv = np.linalg.inv(self.transform)\n"
          "        corrected = (increments.values - self.bias * dt) @ self._transform_inv.T\n")
v('C14 C12', 'fire', IS, [_LC_A, _LC_B, _LC_C], [_LC_A2, _LC_B2, _LC_C2],
  'round-6 seed C14: cache filled on demand, stale after reset_estimates')
v('C14 C12 C19', 'silent', IS, [_LC_A, _LC_B, _LC_C, _LC_D],
  [_LC_A2, _LC_B2, _LC_C2, _LC_D + "        self._transform_inv = None\n"],
  'the same cache, invalidated by every writer of the transform')
# COL-BYNAME on row kinds (round-6 seed C05; F8)
v('C04 C05 C11', 'fire', 'error_model.py', 'pva_error[TRAJECTORY_ERROR_COLS].values)', 'pva_error.values)', 'F8 repair reverted')
v('C05 C18', 'fire', 'sim.py',
  ['    result = pva.copy()\n    result[LLA_COLS] = transform.perturb_lla(result[LLA_COLS], pva_error[NED_COLS])\n',
   '    result[VEL_COLS] += pva_error[VEL_COLS]\n', '    result[RPH_COLS] += pva_error[RPH_COLS]\n'],
  ['    pva_error = np.asarray(pva_error, dtype=float)\n    result = pva.copy()\n    result[LLA_COLS] = transform.perturb_lla(result[LLA_COLS], pva_error[:3])\n',
   '    result[VEL_COLS] += pva_error[3:6]\n', '    result[RPH_COLS] += pva_error[6:9]\n'],
  'round-6 seed C05: PvaError read by position')
v('C05 C18', 'fire', 'sim.py', 'result[VEL_COLS] += pva_error[VEL_COLS]', 'result[VEL_COLS] += pva_error.iloc[3:6].values')
v('C05 C18', 'silent', 'sim.py', 'result[VEL_COLS] += pva_error[VEL_COLS]', 'result[VEL_COLS] += pva_error.loc[VEL_COLS]')
v('C13 C02', 'fire', S, """        self.lla[0] = self.initial_pva[LLA_COLS]
        self.velocity_n[0] = self.initial_pva[VEL_COLS]
        self.mat_nb[0] = transform.mat_from_rph(self.initial_pva[RPH_COLS])""", """        self.lla[0] = pva[LLA_COLS]
        self.velocity_n[0] = pva[VEL_COLS]
        self.mat_nb[0] = transform.mat_from_rph(pva[RPH_COLS])""", 'seeded C13: buffers filled from the raw argument')


v('C12 C08 C11', 'fire', F, '        time_delta = integrator.get_time() - time', '        time_delta = next_time - time', 'seeded C12: requested instead of integrated interval')
v('C11', 'fire', F, 'q = np.hstack((gyro_model.v, accel_model.v, gyro_model.q, accel_model.q))', 'q = np.hstack((gyro_model.v, gyro_model.q, accel_model.v, accel_model.q))', 'seeded C11 (same as an own variant)')
v('C11', 'fire', F, 'increments_batch = increments.loc[np.nextafter(time, next_time) : next_time]', 'increments_batch = increments.iloc[index : next_index]', 'seeded C11 round 2: trajectory cursor slices the increments table')
v('C12', 'fire', F, "next_increment_index = np.searchsorted(increments.index, next_time,", "next_increment_index = np.searchsorted(integrator.trajectory.index, next_time,", 'cursor from the trajectory axis (one extra leading row) slices the increments')
v('C11 C12 C10 C08', 'silent', F, '    times = trajectory_nominal.index\n', '    times = np.asarray(trajectory_nominal.index)\n', 'axis alias through asarray')


v('C14', 'fire', I, '        result = util.mv_prod(self.transform, readings)', '        result = readings.values @ self.transform', 'seeded C14: simulator applies the transposed transform')
v('C14', 'silent', I, '        result = util.mv_prod(self.transform, readings)', '        result = readings.values @ self.transform.T', 'row-vector form of T @ x')
v('C16', 'fire', T, """    lat = lat + p
    lat[z < 0] *= -1
    lat = np.rad2deg(lat)""", """    lat[z < 0] *= -1
    lat = np.rad2deg(lat + p)""", 'seeded C16: Newton correction added after the hemisphere flip')
v('C18', 'fire', T, 'if np.median(np.diff(first.index)) < np.median(np.diff(second.index)):', 'if np.median(np.diff(first.index)) > np.median(np.diff(second.index)):', 'seeded C18: the sparser table is interpolated')
v('C18', 'silent', T, 'if np.median(np.diff(first.index)) < np.median(np.diff(second.index)):', 'if np.median(np.diff(second.index)) > np.median(np.diff(first.index)):', 'comparison written the other way round')


v('C04', 'fire', E, '-util.skew_matrix(2 * Omega_n + rho_n)', '-util.skew_matrix(Omega_n + rho_n)', 'Coriolis factor 2 dropped')
v('C04', 'fire', E, 'F[np.ix_(samples, self.DV, self.PHI)] = -util.skew_matrix(g_n)', 'F[np.ix_(samples, self.DV, self.PHI)] = util.skew_matrix(g_n)', 'sign of the gravity-tilt coupling')
v('C04', 'fire', E, 'B_gyro[np.ix_(samples, self.PHI, [0, 1, 2])] = -mat_nb', 'B_gyro[np.ix_(samples, self.PHI, [0, 1, 2])] = mat_nb', 'gyro coupling sign')
v('C04', 'fire', E, '        F[np.ix_(samples, self.DR, self.PHI)] = V_skew\n', '', 'velocity-attitude coupling of the position error dropped')
v('C04', 'fire', E, 'util.mm_prod(R, V_skew))', 'util.mm_prod(V_skew, R))', 'operand order in the attitude block')
v('C04', 'fire', E, '(-util.skew_matrix(rho_n + Omega_n) +', '(-util.skew_matrix(rho_n) +', 'Earth rate dropped from the attitude block')


# LOCAL-ORDER (survey: an edited assignment target leaves later reads unbound)
v('C01 C02 C13', 'fire', K, '        V1 = velocity_n[j, 0]\n', '        V2 = velocity_n[j, 0]\n', 'survey: V1 read before the statement that binds it')
v('C01', 'fire', K, '        chi1 = Omega1 + rho1\n        chi2', '        chi2 = Omega1 + rho1\n        chi2', 'survey: chi1 bound only further down')
# ATTR-BOUND (survey: renamed / misspelt attributes end the analysis instead of being reported)
v('C14 C11 C12', 'fire', IS, '            return self.H\n', '            return self.Hm\n', 'attribute that is bound nowhere in the class')
v('C02 C13', 'fire', S, 'self.with_altitude)', 'self.with_alt)', 'misspelt attribute handed to the kernel')
# ------------------------------------------------------------------ round-7 seeds
v('C02 C17', 'fire', K, ['    norm2 = np.sum(rv ** 2)\n', '    dBn = np.empty((3, 3))\n    dBb = np.empty((3, 3))\n'],
  ['    norm2 = np.sum(rv ** 2)\n    if norm2 == 0:\n        return\n\n', '    dBn = np.eye(3)\n    dBb = np.eye(3)\n'],
  'round-7 seed C02: null rotations skipped, scratch matrices pre-set to identity')
v('C03', 'fire', 'sim.py', 'VU_spline = CubicSpline(time, -velocity_n[:, 2])', "VU_spline = CubicSpline(time, -velocity_n[:, 2], bc_type='natural')",
  'round-7 seed C03: natural end conditions')
v('C03', 'silent', 'sim.py', 'VU_spline = CubicSpline(time, -velocity_n[:, 2])', "VU_spline = CubicSpline(time, -velocity_n[:, 2], bc_type='not-a-knot')",
  'the default end condition spelled out')
v('C05 C18', 'fire', T, '    rn, _, rp = earth.principal_radii(lla[:, 0], lla[:, 2])\n\n    lla[:, 0] += np.rad2deg(dr_n[:, 0] / rn)',
  '    rn, _, rp = earth.principal_radii(lla[:, 0], lla[:, 2])\n    rp = np.maximum(rp, 0.1 * rn)\n\n    lla[:, 0] += np.rad2deg(dr_n[:, 0] / rn)',
  'round-7 seed C05: parallel radius floored inside the latitude domain')
v('C08 C07', 'fire', KA, ['    n = len(F)\n', '    H = expm(H * dt)\n'],
  ['    F = np.asarray(F, dtype=float)\n    Q = np.asarray(Q, dtype=float)\n    n = len(F)\n    F *= dt\n    Q *= dt\n', '    H = expm(H)\n'],
  'round-7 seed C08: the step multiplied into the caller\'s F and Q')
v('C10 C11', 'fire', FL, ['gyro_average = increments_batch[THETA_COLS].sum(axis=0) / time_delta', 'accel_average = increments_batch[DV_COLS].sum(axis=0) / time_delta'],
  ["gyro_average = increments_batch[THETA_COLS].sum(axis=0) / increments_batch['dt'].sum()", "accel_average = increments_batch[DV_COLS].sum(axis=0) / increments_batch['dt'].sum()"],
  'round-7 seed C10: averaged over the batch duration (0/0 for an empty batch)', every=True)
v('C12', 'fire', F, 'pva_average = _interpolate_pva(pva_old, pva_new, 0.5)', 'pva_average = 0.5 * (pva_old + pva_new)',
  'round-7 seed C12: arithmetic mean of the attitude angles')
v('C13', 'fire', 'error_model.py', "        if imu_to_antenna_b is not None:\n            mat_nb = transform.mat_from_rph(pva[RPH_COLS])\n            result[:, self.PHI] = util.skew_matrix(mat_nb @ imu_to_antenna_b)\n        if not self.with_altitude:\n            result = result @ self._transform_3d_2d(pva.VN, pva.VE)\n            result = result[:2]",
  "        if imu_to_antenna_b is None:\n            return (result if self.with_altitude\n                    else result @ self.TRANSFORM_2D_3D.transpose())\n        mat_nb = transform.mat_from_rph(pva[RPH_COLS])\n        result[:, self.PHI] = util.skew_matrix(mat_nb @ imu_to_antenna_b)\n        if not self.with_altitude:\n            result = result @ self._transform_3d_2d(pva.VN, pva.VE)\n            result = result[:2]",
  'round-7 seed C13: fast path without the row cut')
v('C14 C11 C12', 'fire', IS, '            H = self.H.copy()\n', '            H = self.H\n', 'round-7 seed C14: output matrix written into the model\'s own H')
v('C15', 'fire', S, '    theta = gyro_increment + coning\n', '    gap = dt[:, 0] > 1.5 * np.median(dt)\n    coning[gap] = 0\n    sculling[gap] = 0\n\n    theta = gyro_increment + coning\n',
  'round-7 seed C15: corrections zeroed on long intervals')
v('C17 C16 C19', 'fire', T, "    return Rotation.from_euler('xyz', rph, degrees=True).as_matrix()",
  "    rph = np.asarray(rph, dtype=float)\n    if len(rph) != 3:\n        rph = rph.T\n    return Rotation.from_euler('xyz', rph.T if rph.ndim == 2 else rph, degrees=True).as_matrix()",
  'round-7 seed C17 (the dispatch only): single triple told from a stack by its length')
v('C16', 'fire', T, '    ss[m] = 1 - c[m] * c[m]\n', '    ss[m] = s[m] * s[m]\n', 'round-7 seed C16: stale sine in the arccos branch')
v('C18', 'fire', T, '    return all(col in data for col in RPH_COLS)', '    return set(RPH_COLS).issubset(data)', 'round-7 seed C18: subset test iterates the values of a Series')
v('C18', 'silent', T, '    return all(col in data for col in RPH_COLS)', '    return set(RPH_COLS).issubset(data.keys())', 'subset test over the labels')

# round 8
_CONE = '        coning = np.cross(gyro[:-1], gyro[1:]) / 12\n'
v('C15', 'fire', S, _CONE,
  '        coning = (np.roll(gyro[:-1], -1) * np.roll(gyro[1:], -2) - np.roll(gyro[:-1], -2) * np.roll(gyro[1:], -1)) / 12\n',
  'round-8 seed C15 (one site): cross product by rolls of the flattened readings, components leak from the next sample')
v('C15', 'silent', S, _CONE,
  '        coning = (np.roll(gyro[:-1], -1, axis=1) * np.roll(gyro[1:], -2, axis=1) - np.roll(gyro[:-1], -2, axis=1) * np.roll(gyro[1:], -1, axis=1)) / 12\n',
  'cross product by rolls along the component axis')
v('C17 C01', 'fire', K, '        cos = 1 - norm2 / 2 + norm4 / 24\n', '        cos = 1 - norm2 * (0.5 - norm2 / 12)\n',
  'round-8 seed C17: Horner form of the small-angle cosine with the wrong fourth-order coefficient')
v('C17 C01 C02', 'silent', K, '        cos = 1 - norm2 / 2 + norm4 / 24\n', '        cos = 1 - norm2 * (0.5 - norm2 / 24)\n',
  'Horner form of the small-angle cosine')

vp('C13', 'fire', 'seeded/C13-large-correction-through-ecef/patch.diff',
   'round-8 seed C13: perturb_lla applies displacements over 1 km through ECEF, the altitude is no longer copied')
vp('C13', 'silent', 'refactors/T01-C13-altitude-restored.diff',
   'the same large-displacement arm with the altitude of the linear formulas written back')

vp('C02', 'fire', 'seeded/C02-growth-by-chunk-length/patch.diff', 'round-8 seed C02: buffers grown by the chunk length')
vp('C03', 'fire', 'seeded/C03-gravitation-slope-from-earth-rate/patch.diff', 'round-8 seed C03: gravitation slope over an interval from the Earth rate alone')
vp('C05', 'fire', 'seeded/C05-sea-level-radii-in-correction/patch.diff', 'round-8 seed C05: correct_pva converts metres with sea-level radii')
vp('C08', 'fire', 'seeded/C08-requested-step-in-feedback/patch.diff', 'round-8 seed C08: feedback filter discretises over the requested step')
vp('C12', 'fire', 'seeded/C12-increment-window-by-position/patch.diff', 'round-8 seed C12: increment window addressed by trajectory row positions')
vp('C14', 'fire', 'seeded/C14-estimate-dtype-from-sd/patch.diff', 'round-8 seed C14: estimates allocated with the dtype of a user-supplied sd')
vp('C16', 'fire', 'seeded/C16-plumb-line-term-in-one-place/patch.diff', 'round-8 seed C16: plumb-line term added in one of the gravity routines only')
vp('C18', 'fire', 'seeded/C18-index-blind-interpolation/patch.diff', 'round-8 seed C18: resampling interpolates by position, not over the index')
vp('C19', 'fire', 'seeded/C19-posterior-written-into-x/patch.diff', 'round-8 seed C19: kalman.correct writes the posterior into its argument x')

# survey, exit-2-only mutants of propagate_errors turned into findings
v('C04', 'fire', 'error_model.py', 'Phi = 0.5 * (Fi[1:] + Fi[:-1]) * dt.reshape(-1, 1, 1)', 'Phi = 0.5 * (Fi[1:] + Fi[:-1]) * -dt.reshape(-1, 1, 1)', 'transition over the negated step')
v('C04', 'fire', 'error_model.py', 'Phi = 0.5 * (Fi[1:] + Fi[:-1]) * dt.reshape(-1, 1, 1)', 'Phi = 0.5 * (Fi[1:] + Fi[:-1]) / dt.reshape(-1, 1, 1)', 'transition divided by the step')
v('C04', 'fire', 'error_model.py', 'delta_sensor[i] * dt[i]', 'delta_sensor[i] / dt[i]', 'forcing divided by the step')
v('C04', 'fire', 'error_model.py', '    x[0] = x0\n', '    x[1] = x0\n', 'initial error stored into row 1')
v('C04', 'silent', 'error_model.py', 'Phi = 0.5 * (Fi[1:] + Fi[:-1]) * dt.reshape(-1, 1, 1)', 'Phi = -0.5 * (Fi[1:] + Fi[:-1]) * -dt.reshape(-1, 1, 1)', 'two sign changes cancel')


# ---------------------------------------------------------------- refactorings (fifth session)
# Behaviour-preserving refactorings written by sub-agents that saw nothing of /verif (each comes
# with an equivalence demonstration against the original on random inputs); must stay silent.
vp('C01 C02 C03 C04 C12 C13 C16 C17', 'silent', 'refactors/R01.diff',
   'strapdown kernel: jitted helpers extracted, n/e/d component names, named threshold, hoisted reads')
vp('C01 C02 C17', 'silent', 'refactors/R02.diff',
   'mat_from_rotvec: coefficient helper with early return, hoisted reads, reordered stores')
vp('C07 C08 C11 C12', 'silent', 'refactors/R05.diff',
   'kalman: Van Loan assembly and Joseph form in helpers, named slices, flag in a local')
vp('C06 C09 C10 C11 C13', 'silent', 'refactors/R11.diff',
   'measurements: availability / attitude / component-selection helpers, lever arm read once')
vp('C01 C02 C13 C15', 'silent', 'refactors/R04.diff',
   'compute_increments_from_imu: helpers extracted, to_numpy, np.newaxis, np.concatenate, module constants')


# ----------------------------------------------------------------------- runner
def _run_variant(args):
    prop, var, root, check_py = args
    d = tempfile.mkdtemp(prefix='pyins_sa_var_')
    try:
        dst = os.path.join(d, 'pyins')
        shutil.copytree(os.path.join(root, 'pyins'), dst,
                        ignore=shutil.ignore_patterns('__pycache__', 'tests'))
        if var is not None and var.get('transform') is not None:
            from . import audit
            audit.apply(var['transform'], d)
        elif var is not None and var.get('patch'):
            here = os.path.dirname(os.path.dirname(os.path.abspath(__file__)))
            pr = subprocess.run(['patch', '-p1', '-s', '--no-backup-if-mismatch', '-i',
                                 os.path.join(here, var['patch'])], cwd=d, capture_output=True,
                                text=True)
            if pr.returncode != 0:
                return ('skipped', None, '')
        elif var is not None:
            p = os.path.join(dst, var['file'])
            with open(p) as fh:
                s = fh.read()
            olds = var['old'] if isinstance(var['old'], list) else [var['old']]
            news = var['new'] if isinstance(var['new'], list) else [var['new']]
            if any(o not in s for o in olds):
                return ('skipped', None, '')
            for o, n_ in zip(olds, news):
                s = s.replace(o, n_) if var.get('every') else s.replace(o, n_, 1)
            with open(p, 'w') as fh:
                fh.write(s)
        out = os.path.join(d, 'findings.json')
        r = subprocess.run([sys.executable, '-I', check_py, prop, '--root', d, '--no-evidence',
                            '--tier', 'quick', '--findings', out], capture_output=True,
                           text=True, timeout=900)
        ids = None
        if os.path.exists(out):
            with open(out) as fh:
                ids = sorted(tuple(x) for x in json.load(fh))
        return (r.returncode, ids, r.stdout[-600:])
    except Exception as e:          # noqa
        return ('error', None, repr(e))
    finally:
        shutil.rmtree(d, ignore_errors=True)


def _auto_variants(ctx):
    """behaviour-preserving transformations (audit.py) of the modules the rules of this property
    looked at: generated must-stay-silent variants"""
    from . import audit
    mods = set()
    for fq in ctx.functions:
        parts = fq.split('.')
        if len(parts) >= 2:
            mods.add((parts[1] if parts[0] == 'pyins' else parts[0]) + '.py')
    out = []
    for tr in audit.transforms(ctx.root):
        name, fn, target = tr
        if fn in mods:
            out.append(dict(props=[ctx.prop], kind='silent', file=fn, old=name, new='',
                            note='generated: ' + name, every=False, transform=tr))
    return out


def run(ctx):
    mine = [x for x in V if ctx.prop in x['props']]
    if os.environ.get('PYINS_SA_NO_AUDIT') != '1':
        mine = mine + _auto_variants(ctx)
    check_py = os.path.join(os.path.dirname(os.path.dirname(os.path.abspath(__file__))),
                            'check.py')
    jobs = [(ctx.prop, None, ctx.root, check_py)] + [(ctx.prop, x, ctx.root, check_py)
                                                     for x in mine]
    with ThreadPoolExecutor(max_workers=16) as ex:
        res = list(ex.map(_run_variant, jobs))
    base = res[0]
    base_ids = set(base[1] or [])
    matrix = []
    disagree = []
    n_fire = n_silent = n_skip = 0
    for var, (rc, ids, tail) in zip(mine, res[1:]):
        row = dict(kind=var['kind'], file=var['file'], note=var['note'],
                   edit=(str(var['old'])[:60] + ' -> ' + str(var['new'])[:60]).replace('\n', ' '))
        if rc == 'skipped':
            row['result'] = 'skipped (anchor text not present in the current tree)'
            n_skip += 1
        elif ids is None or rc in ('error', 2):
            row['result'] = 'analysis error'
            if var['kind'] == 'silent':
                disagree.append(row)
            else:
                # an unanalysable variant is not a silent pass, but it is not the expected
                # diagnosis either
                row['result'] = 'analysis error (exit 2) instead of a finding'
                disagree.append(row)
        else:
            new = set(ids) - base_ids
            if var['kind'] == 'fire':
                ok = bool(new)
                n_fire += ok
                row['result'] = 'fired: %s' % sorted({i[0] for i in new}) if ok else 'MISSED'
            else:
                ok = set(ids) == base_ids
                n_silent += ok
                row['result'] = 'silent' if ok else 'FALSE ALARM: %s' % sorted({i[0] for i in new})
            if not ok:
                disagree.append(row)
        matrix.append(row)
    ctx.extra['selftest'] = dict(variants=len(mine), fired=n_fire, silent=n_silent,
                                 skipped=n_skip, disagreements=len(disagree), matrix=matrix)
    print('SELFTEST %s: %d variants, %d must-fire fired, %d must-stay-silent silent, %d skipped, '
          '%d disagreements' % (ctx.prop, len(mine), n_fire, n_silent, n_skip, len(disagree)))
    for row in disagree:
        print('  SELFTEST-DISAGREE %s %s: %s' % (row['file'], row['edit'], row['result']))
    ctx.selftest_disagree = len(disagree)
    if mine and n_fire == 0 and not base_ids:
        ctx.selftest_disagree += 1
        print('  SELFTEST-DISAGREE no applicable must-fire variant')
