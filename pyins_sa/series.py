"""Truncated power series in one variable n with Fraction coefficients - the scalar
algebra used by the rotation-series rule (same interface as nf.Alg where needed)."""
from fractions import Fraction
from .nf import frac, Rat

ORDER = 16


class Ser(Rat):
    __slots__ = ('c',)

    def __init__(self, c):
        self.c = {k: v for k, v in c.items() if v and k <= ORDER}

    def __repr__(self):
        return 'Ser(%s)' % ' + '.join('%s n^%d' % (v, k) for k, v in sorted(self.c.items()))


class SeriesAlg:
    """Only the symbol given as `var_square` (the squared norm) is known: it maps to n^2."""

    def __init__(self, var_square):
        self.var_square = var_square
        self.laurent = False        # True: quotients may carry negative powers (checked by the user)
        self.D2R = 'D2R'
        self.R2D = 'R2D'

    def const(self, c):
        return Ser({0: frac(c)})

    def sym(self, name, value=None):
        if name == self.var_square:
            return Ser({2: Fraction(1)})
        raise ValueError('symbol %s has no series' % name)

    def add(self, a, b):
        c = dict(a.c)
        for k, v in b.c.items():
            c[k] = c.get(k, 0) + v
        return Ser(c)

    def neg(self, a):
        return Ser({k: -v for k, v in a.c.items()})

    def sub(self, a, b):
        return self.add(a, self.neg(b))

    def mul(self, a, b):
        c = {}
        for i, u in a.c.items():
            for j, v in b.c.items():
                if i + j <= ORDER:
                    c[i + j] = c.get(i + j, 0) + u * v
        return Ser(c)

    def val(self, a):
        return min(a.c) if a.c else None

    def div(self, a, b):
        vb = self.val(b)
        if vb is None:
            raise ZeroDivisionError('series division by zero')
        va = self.val(a)
        if va is None:
            return Ser({})
        if va < vb and not self.laurent:
            raise ValueError('series has a pole')
        # shift both by vb, then long division (negative exponents only in Laurent mode)
        bb = {k - vb: v for k, v in b.c.items()}
        aa = {k - vb: v for k, v in a.c.items()}
        q = {}
        rem = dict(aa)
        for k in range(min(0, va - vb), ORDER + 1):
            ck = rem.get(k, 0)
            if not ck:
                continue
            qk = ck / bb[0]
            q[k] = qk
            for j, v in bb.items():
                if k + j <= ORDER:
                    rem[k + j] = rem.get(k + j, 0) - qk * v
        return Ser(q)

    def powi(self, a, k):
        if k < 0:
            return self.div(self.const(1), self.powi(a, -k))
        r = self.const(1)
        for _ in range(k):
            r = self.mul(r, a)
        return r

    def sqrt(self, a):
        if len(a.c) == 1:
            (k, v), = a.c.items()
            if k % 2 == 0 and v == 1:
                return Ser({k // 2: Fraction(1)})
        raise ValueError('sqrt of a general series')

    def _compose(self, a, coeffs):
        if a.c.get(0) or any(k < 0 for k in a.c):
            raise ValueError('series argument with constant term')
        out = Ser({})
        p = self.const(1)
        for k in range(0, ORDER + 1):
            if k in coeffs:
                out = self.add(out, self.mul(self.const(coeffs[k]), p))
            p = self.mul(p, a)
            if not p.c:
                break
        return out

    def sin(self, a):
        co, f = {}, 1
        for k in range(0, ORDER + 1):
            if k:
                f *= k
            if k % 2 == 1:
                co[k] = Fraction((-1) ** (k // 2), f)
        return self._compose(a, co)

    def cos(self, a):
        co, f = {}, 1
        for k in range(0, ORDER + 1):
            if k:
                f *= k
            if k % 2 == 0:
                co[k] = Fraction((-1) ** (k // 2), f)
        return self._compose(a, co)

    def tan(self, a):
        return self.div(self.sin(a), self.cos(a))

    def is_const(self, a):
        return all(k == 0 for k in a.c)

    def const_of(self, a):
        return a.c.get(0, Fraction(0))

    def eq(self, a, b):
        return a.c == b.c

    def is_zero(self, a):
        return not a.c

    def key(self, a):
        return repr(a)

    def call_atom(self, text):
        raise ValueError('no series for %s' % text)

    def atoms_of(self, a):
        return set()
