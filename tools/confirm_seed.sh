#!/bin/bash
# usage: confirm_seed.sh <worktree> <Cxx> <seed-dir-name>
# Confirms a seeded change independently: demo fails with the change, passes without, the
# 55 baseline tests pass with the change; then stores it under /verif/seeded/<name>/ and
# records which /verif checks report it.  (Development helper, not a registered check.)
wt=$1; pid=$2; name=$3
out=/verif/seeded/$name; mkdir -p $out
cd $wt || exit 1
git diff -- pyins > $out/patch.diff
cp demo_$pid.py $out/ 2>/dev/null
cp meta.json $out/agent_meta.json 2>/dev/null
log=$out/confirm.log; : > $log
echo "== demo with change" >> $log
( cd $wt && timeout 1500 /venv/bin/python demo_$pid.py >> $log 2>&1 ); rc_with=$?
echo "exit $rc_with" >> $log
git stash -q -- pyins
echo "== demo without change" >> $log
( cd $wt && timeout 1500 /venv/bin/python demo_$pid.py >> $log 2>&1 ); rc_without=$?
echo "exit $rc_without" >> $log
git stash pop -q
echo "== test suite with change" >> $log
( cd $wt && timeout 3000 /venv/bin/python -m pytest -q -p no:cacheprovider -n 6 --deselect pyins/tests/test_sim.py::test_Turntable pyins/tests 2>&1 | tail -3 >> $log )
tests=$(grep -E "passed|failed" $log | tail -1)
echo "== checks on the changed tree" >> $log
caught=""
for p in C01 C02 C03 C04 C05 C06 C07 C08 C09 C10 C11 C12 C13 C14 C15 C16 C17 C18 C19; do
  r=$(cd /verif && /venv/bin/python -I check.py $p --root $wt --no-evidence 2>&1)
  if echo "$r" | grep -q "^VIOLATION"; then caught="$caught $p"; echo "--- $p" >> $log; echo "$r" | grep -E "^  pyins" | cut -c1-400 >> $log; fi
  if echo "$r" | grep -q "ANALYSIS-ERROR"; then echo "--- $p ANALYSIS-ERROR" >> $log; echo "$r" | grep ANALYSIS >> $log; fi
done
python3 - <<PY
import json
m = {"property": "$pid", "demo_exit_with_change": $rc_with, "demo_exit_without_change": $rc_without,
     "tests_with_change": """$tests""".strip(), "checks_reporting_it": "$caught".split(),
     "confirmed": ($rc_with != 0 and $rc_without == 0 and "failed" not in """$tests""" and "passed" in """$tests""")}
try:
    a = json.load(open("$out/agent_meta.json"))
    m["summary"] = a.get("summary"); m["needs_to_manifest"] = a.get("needs_to_manifest")
except Exception as e:
    m["summary"] = None
m["what_i_ran"] = ["demo with change", "git stash; demo without change; git stash pop",
                   "pytest -n 6 --deselect test_Turntable pyins/tests (with change)",
                   "check.py Cxx --root <worktree> for all 19 properties"]
json.dump(m, open("$out/meta.json", "w"), indent=1)
print(json.dumps({k: m[k] for k in ("property","confirmed","demo_exit_with_change","demo_exit_without_change","tests_with_change","checks_reporting_it")}))
PY
