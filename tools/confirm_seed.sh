#!/bin/bash
# usage: confirm_seed.sh <dir with patch.diff + demo_Cxx.py [+ meta.json]> <Cxx> <seed-dir-name>
# Confirms a seeded change independently on scratch copies of the CURRENT /repo (no git stash, no
# shared state): the demo fails with the change and passes without, the baseline tests pass with
# the change; stores it under /verif/seeded/<name>/ and records which /verif checks report it
# (relative to the unchanged tree).  Development helper, not a registered check.
src=$1; pid=$2; name=$3
out=/verif/seeded/$name; mkdir -p $out
cp $src/patch.diff $out/patch.diff || exit 1
cp $src/demo_$pid.py $out/ 2>/dev/null
[ -f $src/meta.json ] && cp $src/meta.json $out/agent_meta.json
base=$(mktemp -d /tmp/seedbase_XXXX); mut=$(mktemp -d /tmp/seedmut_XXXX)
for d in $base $mut; do cp -r /repo/pyins /repo/pyproject.toml $d/ 2>/dev/null; rm -rf $d/pyins/__pycache__; done
log=$out/confirm.log; : > $log
( cd $mut && patch -p1 -s < $out/patch.diff ) >> $log 2>&1 || { echo "PATCH DOES NOT APPLY to current /repo" | tee -a $log; }
cp $out/demo_$pid.py $base/; cp $out/demo_$pid.py $mut/
echo "== demo with change" >> $log
( cd $mut && timeout 2400 /venv/bin/python demo_$pid.py >> $log 2>&1 ); rc_with=$?
echo "exit $rc_with" >> $log
echo "== demo without change" >> $log
( cd $base && timeout 2400 /venv/bin/python demo_$pid.py >> $log 2>&1 ); rc_without=$?
echo "exit $rc_without" >> $log
echo "== test suite with change" >> $log
( cd $mut && timeout 3000 /venv/bin/python -m pytest -q -p no:cacheprovider -n 5 --deselect pyins/tests/test_sim.py::test_Turntable pyins/tests 2>&1 | tail -3 >> $log )
tests=$(grep -E "passed|failed" $log | tail -1)
echo "== checks on the changed tree" >> $log
caught=""
for p in C01 C02 C03 C04 C05 C06 C07 C08 C09 C10 C11 C12 C13 C14 C15 C16 C17 C18 C19; do
  r=$(cd /verif && /venv/bin/python -I check.py $p --root $mut --no-evidence 2>&1)
  if echo "$r" | grep -q "^VIOLATION"; then caught="$caught $p"; echo "--- $p" >> $log; echo "$r" | grep -E "^  pyins" | cut -c1-400 >> $log; fi
  if echo "$r" | grep -q "ANALYSIS-ERROR"; then caught="$caught $p(analysis-error)"; echo "--- $p ANALYSIS-ERROR" >> $log; echo "$r" | grep ANALYSIS >> $log; fi
done
python3 - <<PY
import json
m = {"property": "$pid", "demo_exit_with_change": $rc_with, "demo_exit_without_change": $rc_without,
     "tests_with_change": """$tests""".strip(), "checks_reporting_it": "$caught".split(),
     "confirmed": ($rc_with != 0 and $rc_without == 0 and "failed" not in """$tests""" and "passed" in """$tests""")}
try:
    a = json.load(open("$out/agent_meta.json"))
    m["summary"] = a.get("summary"); m["needs_to_manifest"] = a.get("needs_to_manifest")
except Exception as e:
    m["summary"] = None
m["what_i_ran"] = ["patch applied to a scratch copy of the current /repo/pyins",
                   "demo on the patched copy (must fail) and on an unpatched copy (must pass)",
                   "pytest -n 5 --deselect test_Turntable pyins/tests on the patched copy",
                   "check.py Cxx --root <patched copy> for all 19 properties"]
json.dump(m, open("$out/meta.json", "w"), indent=1)
print(json.dumps({k: m[k] for k in ("property","confirmed","demo_exit_with_change","demo_exit_without_change","tests_with_change","checks_reporting_it")}))
PY
rm -rf $base $mut
