#!/bin/bash
# usage: try_refactor.sh <worktree or dir with pyins/> [Cxx ...]  -- development helper: run the checks on a
# behaviour-preserving refactoring; every non-zero exit is a robustness defect of a rule.
src=$1; shift
props=${@:-C01 C02 C03 C04 C05 C06 C07 C08 C09 C10 C11 C12 C13 C14 C15 C16 C17 C18 C19}
d=$(mktemp -d /tmp/reftry_XXXX)
cp -r $src/pyins $d/; rm -rf $d/pyins/__pycache__ $d/pyins/tests
for p in $props; do
  ( r=$(cd /verif && timeout 900 /venv/bin/python -I check.py $p --root $d --no-evidence 2>&1); rc=$?
    if [ $rc -ne 0 ]; then echo "== $p exit $rc"; echo "$r" | grep -E "^  pyins|ANALYSIS-ERROR" | head -4 | cut -c1-330; fi ) &
done
wait
rm -rf $d
echo "-- done"
