#!/usr/bin/env python3
"""Development helper (not a registered check): write the prompts for one round of seeded changes.

Each prompt gives a fresh sub-agent ONLY the text of one property, its own scratch worktree and the
one-sentence summaries of the changes earlier contributors made for that property (so that it
looks elsewhere) - nothing from /verif.

usage: make_seed_prompts.py <round> [Cxx ...]     -> /tmp/prompt<round>_Cxx.txt
"""
import glob
import json
import os
import sys

rnd = sys.argv[1]
only = [a.upper() for a in sys.argv[2:]]
props = [json.loads(l) for l in open('/verif/properties.jsonl')]
prev = {}
for mp in sorted(glob.glob('/verif/seeded/*/meta.json'), key=os.path.getmtime):
    m = json.load(open(mp))
    if m.get('summary'):
        prev.setdefault(m['property'], []).append(m['summary'])
# seeds saved for this session but not yet confirmed
for d in sorted(glob.glob('/tmp/seeds_in/C??[a-z]')):
    try:
        m = json.load(open(os.path.join(d, 'meta.json')))
    except Exception:
        continue
    pid = os.path.basename(d)[:3]
    if m.get('summary') and m['summary'] not in prev.get(pid, []):
        prev.setdefault(pid, []).append(m['summary'])

T = open(os.path.join(os.path.dirname(os.path.abspath(__file__)), 'seed_prompt_template_C18.txt')).read()
head_end = T.index('PROPERTY C18:')
task_start = T.index('YOUR TASK:')
head = T[:head_end]
tail = T[task_start:]
for p in props:
    pid = p['id']
    if only and pid not in only:
        continue
    w = '/tmp/w%s_%s' % (rnd, pid)
    body = 'PROPERTY %s: %s\n%s\nIt is quantified over: %s\nWhy the existing tests cannot settle it: %s\n' \
           'Code it is anchored in: %s\n\n' % (pid, p['title'], p['statement'], p['quantifier']['text'],
                                               p['why_tests_cant'], ', '.join(p['anchors']['files']))
    note = ''
    if prev.get(pid):
        note = ('NOTE: previous contributors already submitted the following changes for this property; '
                'yours must be DIFFERENT IN KIND AND IN LOCATION from ALL of them (a different function or '
                'a different mechanism, not a variation of any). Look for parts of the property and of the '
                'code that none of them touched:\n')
        for k, s_ in enumerate(prev[pid], 1):
            note += '  previous change %d: %s\n' % (k, s_[:420])
        note += '\n'
    text = (head + body + note + tail).replace('/tmp/w4_C18', w).replace('demo_C18', 'demo_' + pid) \
        .replace('"C18"', '"%s"' % pid)
    open('/tmp/prompt%s_%s.txt' % (rnd, pid), 'w').write(text)
    print(pid, len(prev.get(pid, [])), 'previous')
