#!/usr/bin/env python3
"""Regenerate MANIFEST.json from pyins_sa/props.py (development helper)."""
import json, os, sys
sys.path.insert(0, os.path.dirname(os.path.dirname(os.path.abspath(__file__))))
from pyins_sa import props
ids = [json.loads(l)['id'] for l in open('/verif/properties.jsonl')]
checks, na = [], []
for p in ids:
    spec = props.PROPS.get(p)
    if not spec:
        na.append({'property_id': p, 'reason': 'check not built yet (build in progress, see DESIGN.md section 8)'})
        continue
    rules = ', '.join(spec.get('rule_names', []))
    checks.append({
        'property_id': p,
        'quick_cmd': '/venv/bin/python -I check.py %s --tier quick' % p,
        'thorough_cmd': '/venv/bin/python -I check.py %s --tier thorough' % p,
        'evidence_file': '/verif/evidence/%s.json' % p,
        'replay_cmd_template': '/venv/bin/python -I check.py %s --tier quick --replay {path}' % p,
        'engine': 'pyins_sa',
        'level_claimed': {
            'category': 'other',
            'text': ('Static analysis of the source tree (syntax-tree rules, normal-form '
                     'comparison of sibling code, dataflow); decides for ALL inputs/paths the '
                     'following structural clauses, each a necessary condition of the property: '
                     + '; '.join(spec['decided']) + '.'),
            'design_ref': 'DESIGN.md section 6 (%s)' % p},
        'level_note': ('NOT decided (runtime quantities, out of reach of a sound static argument): '
                       + '; '.join(spec['undecided']) + '. Trusted base: CPython ast parser, the '
                       'checker itself, the numpy/scipy/pandas API semantics table (DESIGN.md '
                       'appendix A).'),
        'technique': spec.get('technique', 'static analysis: AST rules + normalising value numbering (sibling/oracle equality of normal forms)'),
    })
m = {
 'version': 1,
 'setup_cmd': 'true',
 'hooks': {'guard': 'NMAYOROV_PYINS_VERIF',
           'enable': 'no hooks: the checks are static (stdlib ast) and never import or execute pyins',
           'baseline_off_cmd': 'cd /repo && /venv/bin/python -m pytest -ra -q -p no:cacheprovider --timeout=900 --continue-on-collection-errors',
           'source_commits': [], 'add_only': True},
 'engines': [{'name': 'pyins_sa', 'path': '/verif/pyins_sa', 'serves_properties': [c['property_id'] for c in checks],
              'kind_free_text': 'repository-specific static analyser: program model, CFG/dataflow, normalising evaluator (N1 polynomial normal form), abstract domains; stdlib only'}],
 'checks': checks,
 'notes': 'Static analysis only; see DESIGN.md. Exit 2 = ANALYSIS-ERROR (anchor vanished / coverage floor), never reported as pass or violation.',
 'not_applicable': na}
json.dump(m, open('/verif/MANIFEST.json', 'w'), indent=1)
print('claimed', [c['property_id'] for c in checks], 'n/a', len(na))
