#!/usr/bin/env python3
"""usage: trymut.py PROP file 'old' 'new' [file old new ...] -- apply text edits to a scratch copy of
/repo/pyins and run the check on it (development helper; not part of any registered command)."""
import sys, os, shutil, subprocess, tempfile
prop = sys.argv[1]
edits = sys.argv[2:]
d = tempfile.mkdtemp(prefix='pyins_mut_')
try:
    shutil.copytree('/repo/pyins', os.path.join(d, 'pyins'), ignore=shutil.ignore_patterns('__pycache__', 'tests'))
    for i in range(0, len(edits), 3):
        fn, old, new = edits[i:i+3]
        p = os.path.join(d, 'pyins', fn)
        s = open(p).read()
        if s.count(old) < 1:
            print('EDIT NOT APPLICABLE', fn, old); sys.exit(3)
        s = s.replace(old, new, 1)
        open(p, 'w').write(s)
    r = subprocess.run(['/venv/bin/python', '-I', '/verif/check.py', prop, '--root', d, '--no-evidence'], capture_output=True, text=True, timeout=600)
    out = [l for l in r.stdout.splitlines() if not l.startswith('  rule')]
    print('\n'.join(out[-8:])[:1500]); print('exit', r.returncode)
finally:
    shutil.rmtree(d)
