#!/bin/bash
# usage: quickseed.sh <patch.diff> [Cxx ...]  -- apply a patch to a scratch copy of /repo/pyins and run checks on it
p=$1; shift; props=${@:-C01 C02 C03 C04 C05 C06 C07 C08 C09 C10 C11 C12 C13 C14 C15 C16 C17 C18 C19}
d=$(mktemp -d /tmp/qs_XXXX); cp -r /repo/pyins $d/; rm -rf $d/pyins/__pycache__ $d/pyins/tests
( cd $d && patch -p1 -s < $p ) || echo "PATCH FAILED"
for c in $props; do
  r=$(cd /verif && timeout 600 /venv/bin/python -I check.py $c --root $d --no-evidence 2>&1); rc=$?
  echo "== $c exit $rc"; echo "$r" | grep -E "^  pyins|ANALYSIS-ERROR" | cut -c1-420 | head -6
done
rm -rf $d
