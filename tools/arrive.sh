#!/bin/bash
# usage: arrive.sh <round> <Cxx> <seed-dir-name>  -- take a finished sub-agent's deliverables out of its
# worktree, remove the worktree, confirm the change independently (confirm_seed.sh). Development helper.
rnd=$1; pid=$2; name=$3
w=/tmp/w${rnd}_$pid; in=/tmp/seeds_in/${pid}_$rnd; mkdir -p $in
( cd $w && git diff -- pyins > $in/patch.diff ); cp $w/demo_$pid.py $w/meta.json $in/ 2>/dev/null
git -C /repo worktree remove --force $w
bash /verif/tools/confirm_seed.sh $in $pid $name
