#!/usr/bin/env python3
"""Development helper (not a registered check): which survivors of the mutation survey are
*realistic* - i.e. also pass the repository's own test suite?  A survivor the tests reject is a
change nobody could commit; a survivor the tests accept is either an equivalent mutant, code no
property speaks about, or a gap of the rules.

usage: survivor_tests.py <survivor file> [file-substring ...]   env: ST_WORKERS (3), ST_OUT
"""
import os
import shutil
import subprocess
import sys
import tempfile
from concurrent.futures import ThreadPoolExecutor

sys.path.insert(0, os.path.dirname(os.path.abspath(__file__)))
import mutation_survey as ms          # noqa: E402


def run(m):
    fn, kind, old, new, text = m
    d = tempfile.mkdtemp(prefix='pyins_st_')
    try:
        shutil.copytree('/repo/pyins', os.path.join(d, 'pyins'),
                        ignore=shutil.ignore_patterns('__pycache__'))
        shutil.copy('/repo/pyproject.toml', d)
        open(os.path.join(d, 'pyins', fn), 'w').write(text + '\n')
        env = dict(os.environ, OMP_NUM_THREADS='1', OPENBLAS_NUM_THREADS='1')
        try:
            r = subprocess.run(['/venv/bin/python', '-m', 'pytest', '-x', '-q', '-p',
                                'no:cacheprovider', '-n', '4', '--deselect',
                                'pyins/tests/test_sim.py::test_Turntable', 'pyins/tests'],
                               cwd=d, env=env, capture_output=True, text=True, timeout=1500)
            tail = [l for l in r.stdout.splitlines() if 'passed' in l or 'failed' in l or
                    'error' in l.lower()][-1:]
            return m[:4], r.returncode, (tail[0] if tail else '')[:80]
        except subprocess.TimeoutExpired:
            return m[:4], 'timeout', ''
    finally:
        shutil.rmtree(d, ignore_errors=True)


if __name__ == '__main__':
    src = sys.argv[1]
    subs = sys.argv[2:]
    keys = set()
    for line in open(src):
        parts = line.rstrip('\n').split(' ', 1)
        if len(parts) == 2 and parts[0] in ('SURVIVOR', 'EXIT2'):
            body = parts[1].strip()
            if parts[0] == 'EXIT2':
                body = body.rsplit(' | ', 1)[0]
            keys.add(body)
    files = sorted(f for f in os.listdir('/repo/pyins') if f.endswith('.py') and f != '__init__.py')
    if subs:
        files = [f for f in files if any(a in f for a in subs)]
    muts = []
    for fn in files:
        muts += [m for m in ms.make_mutants(fn) if '%s %s | %s -> %s' % m[:4] in keys]
    print('%d mutants' % len(muts))
    sys.stdout.flush()
    out = os.environ.get('ST_OUT', '/tmp/survivor_tests.txt')
    with open(out, 'a') as fh, ThreadPoolExecutor(
            max_workers=int(os.environ.get('ST_WORKERS', '3'))) as ex:
        for (fn, kind, old, new), rc, tail in ex.map(run, muts):
            fh.write('%s %s %s | %s -> %s | %s\n' % ('TESTS-PASS' if rc == 0 else 'TESTS-FAIL',
                                                    fn, kind, old, new, tail))
            fh.flush()
    print('done')
