#!/usr/bin/env python3
"""Development helper (not a registered check, never part of a verdict): differential test of
the normalising evaluator's numpy/Python model against numpy itself.

Small straight-line functions that exercise the constructs `pyins_sa.expr.SymEval` claims to
model are (a) executed by CPython/numpy on small integer-valued arrays and (b) evaluated by
SymEval with the same values as exact constants.  Any disagreement, or an `Unsupported` on a
construct listed here, is a defect of the evaluator (unsound model or lost coverage).

Run with the repository's interpreter (needs numpy):  /venv/bin/python tools/evaluator_difftest.py
"""
import os
import shutil
import sys
import tempfile
import textwrap
from fractions import Fraction

import numpy as np

sys.path.insert(0, os.path.dirname(os.path.dirname(os.path.abspath(__file__))))
from pyins_sa.model import Repo                              # noqa: E402
from pyins_sa.expr import SymEval, SArray, Unsupported      # noqa: E402
from pyins_sa.nf import Alg, Rat                             # noqa: E402

SNIPPETS = r'''
import numpy as np

def t01(a, b):            # elementwise, broadcasting scalar
    return a * 2 + b - 1
def t02(M):               # transpose
    return M.T
def t03(M):
    return np.transpose(M)
def t04(M, N):            # matmul
    return M @ N
def t05(M, v):
    return M @ v
def t06(M, N):
    return M.dot(N)
def t07(M, N):
    return np.dot(M, N.T)
def t08(a, b):
    return np.cross(a, b)
def t09(a):               # indexing
    return a[0] + a[-1]
def t10(M):
    return M[1, 2] - M[2, 1]
def t11(M):
    return M[:, 0]
def t12(M):
    return M[1]
def t13(M):
    return M[:2, 1:]
def t14(a):
    r = np.zeros(3)
    r[0] = a[2]
    r[1:] = a[:2]
    return r
def t15(M):
    r = np.zeros((3, 3))
    r[0, 1] = M[1, 0]
    r[2] = M[0]
    r[:, 2] = M[:, 1]
    return r
def t16(a):
    return np.hstack([a, a[:1]])
def t17(M, N):
    return np.hstack([M, N])
def t18(M, N):
    return np.vstack([M, N])
def t19(a):
    return np.diag(a)
def t20(M):
    return np.diag(M)
def t21(a):
    return np.eye(3) * a[0] + np.identity(3)
def t22(M, N):
    return np.einsum('ij,jk->ik', M, N)
def t23(M, v):
    return np.einsum('ij,j->i', M, v)
def t24(M, v):
    return np.einsum('ji,j->i', M, v)
def t25(a):
    return np.sum(a)
def t26(a):
    return a.sum()
def t27(a, b):            # in-place update through an alias
    c = a
    c += b
    return a + c
def t28(a):               # copy breaks the alias
    c = a.copy()
    c += 1
    return a + c
def t29(a):
    x = [a[0]] * 3
    return np.array(x)
def t30(a):
    x = [a[0], a[1]] + [a[2]]
    return np.array(x)
def t31(M):
    return np.transpose(M, (1, 0))
def t32(a):
    return a.reshape(3, 1)
def t33(a):
    return a.reshape(-1, 1)
def t34(a):
    return a[:, None]
def t35(a):
    lat, lon, alt = a
    return np.array([alt, lat, lon])
def t36(M):
    x, y, z = M.T
    return x + y * z
def t37(a):
    return np.array([[a[0], 0], [0, a[1]]]) @ np.array([a[2], 1])
def t38(a, b):
    return np.square(a) - b ** 2
def t39(a):
    return np.stack((a[0], a[1], a[2]), axis=-1)
def t40(M):
    r = M.copy()
    r[0] *= -1
    return r
def t41(M):
    r = M.copy()
    r[:, 1] += M[:, 0]
    return r
def t42(a):
    return np.asarray(a) / 2
def t43(a):
    return -a
def t44(M):
    return M[np.ix_([0, 2], [1, 2])]
def t45(M):
    r = np.zeros((3, 3))
    r[np.ix_([0, 1], [1, 2])] = M[:2, :2]
    return r
def t46(a):
    r = np.empty(3)
    r[...] = a
    return r
def t47(M):
    return M[..., 1]
def t48(a, b):
    return np.array([a, b])
def t49(a):
    return a[::-1]
def t50(a):
    return a[[2, 0, 1]]
def t51(M):
    return M[[0, 2]]
def t52(a):
    s = 0
    for i in range(3):
        s = s + a[i] * (i + 1)
    return s
def t53(a):
    return np.array([x * 2 for x in a])
def t54(a, b):
    return np.hypot(3 * a[0], 4 * a[0]) + b[0]
def t55(M):
    return M.transpose()
def t56(a):
    out = {}
    out['x'] = a[0]
    out['y'] = a[1]
    return out['x'] - out['y']
def t57(a):
    t = (a[0], a[1])
    return t[1] - t[0]
def t58(M):
    return (M @ M.T)[0, 1]
def t59(a):
    return np.atleast_2d(a)[0, 1]
def t60(a):
    return np.zeros_like(a) + a[1]
def t61(M):               # fifth session: swapaxes / concatenate / stack / enumerate / nonzero
    return np.swapaxes(M, -1, -2)
def t62(M, N):
    return np.concatenate((M, N), axis=1)
def t63(M, N):
    return np.concatenate((M, N), axis=0)
def t64(a, b):
    return np.concatenate((a, b))
def t65(a):
    s = 0
    for k, x in enumerate((a[0], a[1], a[2])):
        s = s + (k + 1) * x
    return s
def t66(M):
    r, c = np.nonzero(M - np.diag(np.diag(M)) - M + np.eye(3))
    return np.array(r) * 10 + np.array(c)
def t67(a):
    shape = (2,)
    z = np.zeros((3, *shape))
    z[0] = a[:2]
    return z
def t68(a, *rest):
    return a + rest[0] * 2 - rest[1]
def t69(M):
    return M[(slice(None), *np.ix_([0, 2], [1, 2]))[1:]]
def t70(a, b):
    return np.maximum(a, 3) - np.minimum(b, 0)
'''

STACKED = r'''
import numpy as np

def s01(X):               # X: (n, 3) -> per-row results
    return X[:, 0] * X[:, 1] - X[:, 2]
def s02(X):
    a, b, c = X.T
    return np.array([c, a, b]).T
def s03(X):
    r = np.zeros((len(X), 3))
    r[:, 0] = X[:, 2]
    r[:, 2] = -X[:, 0]
    return r
def s04(X, Y):
    return np.cross(X, Y)
def s05(X):
    r = np.zeros((len(X), 3, 3))
    r[:, 0, 1] = X[:, 2]
    r[:, 1, 0] = -X[:, 2]
    r[:, 2, 2] = 1
    return r
def s06(X, Y):
    r = np.zeros((len(X), 3, 3))
    r[:, 0, 1] = X[:, 2]
    r[:, 1, 2] = X[:, 0]
    r[:, 2, 0] = 2
    return np.einsum('...ij,...j->...i', r, Y)
def s07(X, Y):
    r = np.zeros((len(X), 3, 3))
    r[:, 0, 1] = X[:, 2]
    r[:, 1, 2] = X[:, 0]
    r[:, 2, 0] = 2
    return np.einsum('...ij,...j->...i', np.transpose(r, (0, 2, 1)), Y)
def s08(X):
    r = np.zeros((3,) + X[:, 0].shape)
    r[0] = X[:, 1]
    r[2] = X[:, 0] + 1
    return r.T
def s09(X):
    return X * 2 - X[:, :1]
def s10(X):
    n = X.shape[0]
    r = np.empty((n, 2))
    r[:, 0] = X[:, 0]
    r[:, 1] = X[:, 1] * X[:, 2]
    return r
def s11(X, Y):
    return np.hypot(3 * X[:, 0], 4 * X[:, 0]) + Y[:, 1]
def s12(X):
    lat, lon, alt = np.asarray(X).T
    out = np.empty_like(X)
    out[:, 0] = alt
    out[:, 1] = lat - lon
    out[:, 2] = 3
    return out
'''

ARGS = {
    'a': np.array([2, -3, 5]), 'b': np.array([7, 1, -4]), 'v': np.array([1, -2, 3]),
    'M': np.array([[1, 2, 3], [4, 5, 6], [7, 8, 10]]),
    'N': np.array([[0, 1, -1], [2, 0, 3], [-2, 4, 1]]),
}


def to_s(A, x):
    x = np.asarray(x)
    if x.ndim == 0:
        return A.const(Fraction(int(x)))
    out = SArray(x.shape, {})
    for idx in np.ndindex(*x.shape):
        out.entries[idx] = A.const(Fraction(int(x[idx])))
    return out


def from_s(A, v):
    if isinstance(v, Rat):
        assert A.is_const(v), 'non-constant result'
        return np.array(float(A.const_of(v)))
    if isinstance(v, (int, float, Fraction)) and not isinstance(v, bool):
        return np.array(float(v))
    if isinstance(v, SArray):
        out = np.zeros(v.shape)
        for idx in np.ndindex(*v.shape):
            e = v.get(idx)
            assert A.is_const(e), 'non-constant entry'
            out[idx] = float(A.const_of(e))
        return out
    if isinstance(v, (list, tuple)):
        return np.array([from_s(A, x) for x in v])
    raise AssertionError('result of kind %r' % (type(v).__name__,))


def main():
    d = tempfile.mkdtemp(prefix='pyins_sa_difftest_')
    try:
        os.makedirs(os.path.join(d, 'pyins'))
        open(os.path.join(d, 'pyins', '__init__.py'), 'w').write('')
        open(os.path.join(d, 'pyins', 'snip.py'), 'w').write(textwrap.dedent(SNIPPETS))
        ns = {}
        exec(compile(textwrap.dedent(SNIPPETS), 'snip', 'exec'), ns)
        repo = Repo(d)
        bad = unsup = ok = 0
        for name in sorted(k for k in ns if k.startswith('t') and k[1:].isdigit()):
            f = repo.function('snip.' + name)
            params = list(f.params)
            if name == 't68':
                params = ['a', 'b', 'v']
            want = ns[name](*[ARGS[p].astype(float).copy() for p in params])
            A = Alg()
            ev = SymEval(repo, A)
            try:
                got = from_s(A, ev.call_function(f, [to_s(A, ARGS[p]) for p in params]))
            except Unsupported as e:
                unsup += 1
                print('UNSUPPORTED %s: %s' % (name, e))
                continue
            except AssertionError as e:
                bad += 1
                print('BAD-KIND    %s: %s' % (name, e))
                continue
            want = np.asarray(want, dtype=float)
            if got.shape != want.shape or not np.allclose(got, want):
                bad += 1
                print('MISMATCH    %s: numpy %s, evaluator %s' % (name, want.tolist(), got.tolist()))
            else:
                ok += 1
        # ---- stacked group: the evaluator's implicit sample axis against numpy, row by row
        open(os.path.join(d, 'pyins', 'stk.py'), 'w').write(textwrap.dedent(STACKED))
        ns2 = {}
        exec(compile(textwrap.dedent(STACKED), 'stk', 'exec'), ns2)
        repo = Repo(d)
        XS = {'X': np.array([[2, -3, 5], [1, 4, -2]]), 'Y': np.array([[7, 1, -4], [0, 3, 6]])}
        for name in sorted(k for k in ns2 if k.startswith('s') and k[1:].isdigit()):
            f = repo.function('stk.' + name)
            want = np.asarray(ns2[name](*[XS[p].astype(float).copy() for p in f.params]),
                              dtype=float)
            for row in range(2):
                A = Alg()
                ev = SymEval(repo, A)
                ev.stacked = True
                args = []
                for p in f.params:
                    a_ = to_s(A, XS[p][row])
                    a_.sample = True
                    args.append(a_)
                try:
                    got = from_s(A, ev.call_function(f, args))
                except Unsupported as e:
                    unsup += 1
                    print('UNSUPPORTED %s: %s' % (name, e))
                    break
                except AssertionError as e:
                    bad += 1
                    print('BAD-KIND    %s: %s' % (name, e))
                    break
                w = want[row]
                if got.shape != w.shape or not np.allclose(got, w):
                    bad += 1
                    print('MISMATCH    %s row %d: numpy %s, evaluator %s'
                          % (name, row, w.tolist(), got.tolist()))
                    break
            else:
                ok += 1
        print('%d agree, %d mismatch, %d unsupported' % (ok, bad, unsup))
        return 1 if bad else 0
    finally:
        shutil.rmtree(d, ignore_errors=True)


if __name__ == '__main__':
    sys.exit(main())
