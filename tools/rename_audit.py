#!/usr/bin/env python3
"""Robustness audit (development helper, not a registered check): apply behaviour-preserving
source transformations to scratch copies of /repo/pyins and run every check on them.  Any
exit code other than 0 is a robustness problem of the checker (a false alarm, or an
analysis error), to be fixed in the rules or recorded in DESIGN.md section 8.

Transformations:
  rename:<module>.<function>   every local variable of one function gets the suffix `_q`
                               (parameters, globals, attributes and names used in nested
                               scopes are left alone)
  unparse:<module>             the whole module is re-emitted by ast.unparse (reformatting,
                               comments dropped, quotes normalised)
"""
import ast
import json
import os
import shutil
import subprocess
import sys
import tempfile
from concurrent.futures import ThreadPoolExecutor

REPO = '/repo'
CHECK = os.environ.get('AUDIT_CHECK', '/verif/check.py')   # a snapshot copy may be audited while /verif is edited
PROPS = ['C%02d' % i for i in range(1, 20)]


sys.path.insert(0, os.path.dirname(os.path.abspath(CHECK)))
from pyins_sa.audit import transforms as _transforms, apply          # noqa: E402


def transforms():
    return _transforms(REPO)


def run_one(tr):
    d = tempfile.mkdtemp(prefix='pyins_audit_')
    try:
        shutil.copytree(os.path.join(REPO, 'pyins'), os.path.join(d, 'pyins'),
                        ignore=shutil.ignore_patterns('__pycache__', 'tests'))
        apply(tr, d)
        bad = []
        for p in PROPS:
            r = subprocess.run(['/venv/bin/python', '-I', CHECK, p, '--root', d, '--no-evidence'],
                               capture_output=True, text=True, timeout=600)
            if r.returncode != 0:
                lines = [l for l in r.stdout.splitlines() if l.startswith(('  pyins', 'ANALYSIS'))]
                bad.append((p, r.returncode, lines[:3]))
        return tr[0], bad
    finally:
        shutil.rmtree(d, ignore_errors=True)


if __name__ == '__main__':
    trs = transforms()
    if len(sys.argv) > 1:
        trs = [t for t in trs if any(a in t[0] for a in sys.argv[1:])]
    print('%d transformations' % len(trs))
    workers = int(os.environ.get('AUDIT_WORKERS', '6'))
    n_bad = 0
    with ThreadPoolExecutor(max_workers=workers) as ex:
        for name, bad in ex.map(run_one, trs):
            if bad:
                n_bad += 1
                print('NOT ROBUST', name)
                for p, rc, lines in bad:
                    print('   ', p, 'exit', rc)
                    for l in lines:
                        print('       ', l[:260])
            sys.stdout.flush()
    print('done: %d of %d transformations disturbed a check' % (n_bad, len(trs)))
