#!/usr/bin/env python3
"""Development helper (not a registered check): re-run all 19 checks on every confirmed seeded
change (patch applied to a scratch copy of the current /repo/pyins) and refresh
`checks_reporting_it` / `rules_reporting_it` in seeded/<name>/meta.json.  The demonstration and
the test suite were run by tools/confirm_seed.sh when the seed was confirmed and are not repeated."""
import json
import os
import re
import shutil
import subprocess
import sys
import tempfile
from concurrent.futures import ThreadPoolExecutor

SEEDED = '/verif/seeded'
PROPS = ['C%02d' % i for i in range(1, 20)]


def one(name):
    d = os.path.join(SEEDED, name)
    meta_p = os.path.join(d, 'meta.json')
    if not os.path.exists(meta_p):
        return name, None
    tmp = tempfile.mkdtemp(prefix='pyins_seedchk_')
    try:
        shutil.copytree('/repo/pyins', os.path.join(tmp, 'pyins'),
                        ignore=shutil.ignore_patterns('__pycache__'))
        r = subprocess.run(['patch', '-p1', '-s', '-i', os.path.join(d, 'patch.diff')], cwd=tmp,
                           capture_output=True, text=True)
        if r.returncode != 0:
            return name, 'patch does not apply'
        checks, rules = [], {}
        props = PROPS
        if os.environ.get('RECHECK_FAST'):
            # the seed's own property and the ones that reported it at the last full re-check
            prev = json.load(open(meta_p)).get('checks_reporting_it', [])
            keep = {name.split('-')[0]} | {c[:3] for c in prev}
            props = [p_ for p_ in PROPS if p_ in keep]
        for p in props:
            r = subprocess.run(['/venv/bin/python', '-I', '/verif/check.py', p, '--root', tmp,
                                '--no-evidence'], capture_output=True, text=True, timeout=900)
            if r.returncode == 1 and 'VIOLATION' in r.stdout:
                checks.append(p)
                rs = sorted({m.group(1) for m in re.finditer(r'^  pyins\S* \S+ -- (\S+) --',
                                                             r.stdout, re.M)})
                rules[p] = rs
            elif r.returncode != 0:
                checks.append(p + '(analysis-error)')
        m = json.load(open(meta_p))
        m['checks_reporting_it'] = checks
        m['rules_reporting_it'] = rules
        json.dump(m, open(meta_p, 'w'), indent=1)
        return name, checks
    finally:
        shutil.rmtree(tmp, ignore_errors=True)


if __name__ == '__main__':
    names = sorted(os.listdir(SEEDED))
    if len(sys.argv) > 1:
        names = [n for n in names if any(a in n for a in sys.argv[1:])]
    with ThreadPoolExecutor(max_workers=int(os.environ.get('RECHECK_WORKERS', '5'))) as ex:
        for name, res in ex.map(one, names):
            own = name.split('-')[0]
            flag = '' if res and own in res else '   <-- own property does not report it'
            print(name, res, flag)
