#!/usr/bin/env python3
"""Development helper: regenerate the seeded-change table of DESIGN.md (between the seedtable
markers) from seeded/*/meta.json (refreshed by tools/recheck_seeds.py) and seeded/arrival.json
(verdict of the checks as they were when the seed arrived, recorded by hand)."""
import json
import os
import re

S = '/verif/seeded'
arr = json.load(open(os.path.join(S, 'arrival.json')))
rows = ['| Seed | Change (agent\'s summary, shortened) | Needs | On arrival → now (rules reporting it under its own property; other properties) |',
        '|------|------|------|------|']


def short(t, n):
    t = re.sub(r'\s+', ' ', (t or '').strip()).replace('|', '/')
    return t if len(t) <= n else t[:n - 1].rsplit(' ', 1)[0] + ' …'


for name in sorted(os.listdir(S)):
    mp = os.path.join(S, name, 'meta.json')
    if not os.path.exists(mp):
        continue
    m = json.load(open(mp))
    own = name.split('-')[0]
    rules = m.get('rules_reporting_it', {})
    now = ', '.join(rules.get(own, [])) or ('NOT REPORTED' if own not in m.get('checks_reporting_it', []) else own)
    others = [c for c in m.get('checks_reporting_it', []) if c != own]
    if others:
        now += ' (' + own + '); also ' + ', '.join(others)
    else:
        now += ' (' + own + ')'
    conf = '' if m.get('confirmed') else ' [unconfirmed]'
    rows.append('| %s%s | %s | %s | %s → %s |' % (name, conf, short(m.get('summary'), 260),
                                                   short(m.get('needs_to_manifest'), 170),
                                                   arr.get(name, '?'), now))
table = '\n'.join(rows)
p = '/verif/DESIGN.md'
s = open(p).read()
b, e = '<!-- seedtable:begin -->', '<!-- seedtable:end -->'
if '@@SEEDTABLE@@' in s:
    s = s.replace('@@SEEDTABLE@@', b + '\n' + table + '\n' + e)
else:
    i, j = s.index(b), s.index(e)
    s = s[:i] + b + '\n' + table + '\n' + s[j:]
open(p, 'w').write(s)
print('%d seeds' % (len(rows) - 2))
