#!/usr/bin/env python3
"""Development helper (not a registered check): a survey of generic single-edit mutants of
/repo/pyins against all 19 checks.  A mutant that every check passes is a *survivor*: either an
equivalent mutant, code outside every property, or a gap of the rules.  The list of survivors
(out/mutation_survivors.txt) is read by hand; it is the objective complement of the seeded
changes, which sample what a person would break.

Mutation operators (AST based, one site per mutant):
  arith     + <-> -, * <-> /            cmp       < <-> <=, > <-> >=, == <-> !=
  const     0.5 -> 1.0, 2 -> 3, 12 -> 6, n -> n + 1 for small ints in arithmetic
  index     constant subscript k -> (k + 1) % 3 (k in 0..2)
  swapargs  f(a, b, ...) -> f(b, a, ...) for calls with >= 2 positional args
  neg       x -> -x for the right operand of an assignment's top-level product
  name      swaps within families (rn/re/rp, lat/lon, VN/VE, sin/cos, gyro/accel, theta/dv,
            trajectory/trajectory_nominal, first/second, index/next_index, ...)

usage: mutation_survey.py [file-substring ...]     env: SURVEY_WORKERS (default 14), SURVEY_MAX
"""
import ast
import copy
import os
import shutil
import subprocess
import sys
import tempfile
import warnings
from concurrent.futures import ThreadPoolExecutor

warnings.filterwarnings('ignore')
REPO = '/repo'
CHECK = os.environ.get('SURVEY_CHECK', '/verif/check.py')  # a snapshot copy may be surveyed while /verif is edited
PROPS = ['C%02d' % i for i in range(1, 20)]

FAMILIES = [
    ['rn', 're', 'rp'], ['lat', 'lon'], ['VN', 'VE'], ['V1', 'V2'], ['sin_lat', 'cos_lat'],
    ['gyro_model', 'accel_model'], ['THETA_COLS', 'DV_COLS'], ['GYRO_COLS', 'ACCEL_COLS'],
    ['trajectory', 'trajectory_nominal'], ['first', 'second'], ['index', 'next_index'],
    ['increments_index', 'next_increment_index'], ['time', 'next_time'], ['pva_old', 'pva_new'],
    ['gyro_block', 'accel_block'], ['Fig', 'Fia'], ['Hg', 'Ha'], ['a_gyro', 'b_gyro'],
    ['a_accel', 'b_accel'], ['rho1', 'rho2'], ['chi1', 'chi2'], ['Omega1', 'Omega3'],
    ['start_time', 'end_time'], ['lla1', 'lla2'], ['axis_out', 'axis_in'], ['LLA_COLS', 'VEL_COLS'],
    ['DRN', 'DRE'], ['DVN', 'DVE'], ['level_sd', 'azimuth_sd'], ['position_sd', 'velocity_sd'],
]
FUNC_FAMILIES = [['sin', 'cos'], ['arcsin', 'arccos'], ['deg2rad', 'rad2deg'], ['zeros', 'ones'],
                 ['min', 'max']]


def sites(tree):
    """yield (kind, description, mutate(tree_copy_node)) using node paths"""
    out = []
    nodes = list(ast.walk(tree))
    for k, n in enumerate(nodes):
        if isinstance(n, ast.BinOp):
            sw = {ast.Add: ast.Sub, ast.Sub: ast.Add, ast.Mult: ast.Div, ast.Div: ast.Mult}
            if type(n.op) in sw:
                out.append(('arith', k, lambda m, sw=sw: setattr(m, 'op', sw[type(m.op)]())))
        if isinstance(n, ast.Compare) and len(n.ops) == 1:
            sw = {ast.Lt: ast.LtE, ast.LtE: ast.Lt, ast.Gt: ast.GtE, ast.GtE: ast.Gt,
                  ast.Eq: ast.NotEq, ast.NotEq: ast.Eq}
            if type(n.ops[0]) in sw:
                out.append(('cmp', k, lambda m, sw=sw: setattr(m, 'ops', [sw[type(m.ops[0])]()])))
        if isinstance(n, ast.Constant) and isinstance(n.value, (int, float)) and \
                not isinstance(n.value, bool):
            tw = {0.5: 1.0, 2: 3, 12: 6, 6: 12, 24: 12, 3: 2, 1: 2, 0: 1, 2.5: 2.0, 0.3: 0.5,
                  1e-6: 1e-2, 120: 100, 720: 700, 90: 180, 360: 180, 180: 360}
            if n.value in tw:
                out.append(('const', k, lambda m, tw=tw: setattr(m, 'value', tw[m.value])))
        if isinstance(n, ast.Subscript):
            sl = n.slice
            elts = sl.elts if isinstance(sl, ast.Tuple) else [sl]
            for j, e in enumerate(elts):
                if isinstance(e, ast.Constant) and isinstance(e.value, int) and \
                        not isinstance(e.value, bool) and 0 <= e.value <= 2:
                    def mut(m, j=j):
                        s2 = m.slice
                        es = s2.elts if isinstance(s2, ast.Tuple) else [s2]
                        es[j].value = (es[j].value + 1) % 3
                    out.append(('index', k, mut))
        if isinstance(n, ast.Call) and len(n.args) >= 2 and not any(
                isinstance(a, ast.Starred) for a in n.args):
            out.append(('swapargs', k, lambda m: m.args.__setitem__(slice(0, 2),
                                                                     [m.args[1], m.args[0]])))
        if isinstance(n, ast.Name):
            for fam in FAMILIES:
                if n.id in fam:
                    other = fam[(fam.index(n.id) + 1) % len(fam)]
                    out.append(('name', k, lambda m, other=other: setattr(m, 'id', other)))
        if isinstance(n, ast.Attribute):
            for fam in FUNC_FAMILIES + FAMILIES:
                if n.attr in fam:
                    other = fam[(fam.index(n.attr) + 1) % len(fam)]
                    out.append(('name', k, lambda m, other=other: setattr(m, 'attr', other)))
        if isinstance(n, ast.Assign) and isinstance(n.value, ast.BinOp) and \
                isinstance(n.value.op, ast.Mult):
            out.append(('neg', k, lambda m: setattr(m.value, 'right', ast.UnaryOp(
                op=ast.USub(), operand=m.value.right))))
        # ---- sixth session: operators a person's slip produces
        if isinstance(n, ast.Slice) and n.step is None:
            lo, hi = n.lower, n.upper
            one = lambda e: isinstance(e, ast.Constant) and e.value == 1
            m1 = lambda e: isinstance(e, ast.UnaryOp) and isinstance(e.op, ast.USub) and \
                one(e.operand)
            if one(lo) and hi is None:        # [1:] -> [:-1]
                out.append(('slice', k, lambda m: (setattr(m, 'lower', None), setattr(
                    m, 'upper', ast.UnaryOp(op=ast.USub(), operand=ast.Constant(1))))))
            elif lo is None and m1(hi):       # [:-1] -> [1:]
                out.append(('slice', k, lambda m: (setattr(m, 'upper', None), setattr(
                    m, 'lower', ast.Constant(1)))))
            elif lo is not None and hi is not None:   # [a:b] -> [a:b + 1]
                out.append(('slice', k, lambda m: setattr(m, 'upper', ast.BinOp(
                    left=m.upper, op=ast.Add(), right=ast.Constant(1)))))
            elif lo is None and hi is not None and not m1(hi):   # [:b] -> [:b - 1]
                out.append(('slice', k, lambda m: setattr(m, 'upper', ast.BinOp(
                    left=m.upper, op=ast.Sub(), right=ast.Constant(1)))))
        if isinstance(n, ast.Call) and isinstance(n.func, ast.Attribute) and \
                n.func.attr == 'copy' and not n.args and not n.keywords:
            out.append(('copydrop', k, 'REPLACE_WITH_RECEIVER'))
        if isinstance(n, ast.Call) and n.keywords:
            for j in range(len(n.keywords)):
                if n.keywords[j].arg is not None:
                    out.append(('kwdrop', k, lambda m, j=j: m.keywords.pop(j)))
        if isinstance(n, (ast.AugAssign, ast.Expr)) and not (
                isinstance(n, ast.Expr) and isinstance(n.value, ast.Constant)):
            out.append(('delstmt', k, 'REPLACE_WITH_PASS'))
        if isinstance(n, ast.Assign) and len(n.targets) == 1 and \
                isinstance(n.targets[0], (ast.Subscript, ast.Attribute)):
            out.append(('delstmt', k, 'REPLACE_WITH_PASS'))
        if isinstance(n, ast.Compare) and len(n.ops) == 1 and \
                type(n.ops[0]) in (ast.Lt, ast.LtE, ast.Gt, ast.GtE):
            fl = {ast.Lt: ast.Gt, ast.LtE: ast.GtE, ast.Gt: ast.Lt, ast.GtE: ast.LtE}
            out.append(('cmpflip', k, lambda m, fl=fl: setattr(m, 'ops', [fl[type(m.ops[0])]()])))
        if isinstance(n, ast.BoolOp):
            sw2 = {ast.And: ast.Or, ast.Or: ast.And}
            out.append(('boolop', k, lambda m, sw2=sw2: setattr(m, 'op', sw2[type(m.op)]())))
        if isinstance(n, ast.If) and not n.orelse and len(n.body) == 1 and \
                isinstance(n.body[0], (ast.Raise,)):
            pass    # validation only
        elif isinstance(n, ast.If):
            out.append(('ifnot', k, lambda m: setattr(m, 'test', ast.UnaryOp(
                op=ast.Not(), operand=m.test))))
    kinds = os.environ.get('SURVEY_KINDS')
    if kinds:
        out = [o for o in out if o[0] in kinds.split(',')]
    return out


class _Repl(ast.NodeTransformer):
    def __init__(self, target, how):
        self.target, self.how = target, how

    def visit(self, node):
        if node is self.target:
            if self.how == 'REPLACE_WITH_PASS':
                return ast.Pass()
            if self.how == 'REPLACE_WITH_RECEIVER':
                return node.func.value
        return self.generic_visit(node)


def make_mutants(fn):
    src = open(os.path.join(REPO, 'pyins', fn)).read()
    tree = ast.parse(src)
    base = ast.unparse(tree)
    muts = []
    for kind, k, mut in sites(tree):
        t2 = copy.deepcopy(tree)
        node = list(ast.walk(t2))[k]
        try:
            if isinstance(mut, str):
                t2 = _Repl(node, mut).visit(t2)
            else:
                mut(node)
            new = ast.unparse(ast.fix_missing_locations(t2))
        except Exception:
            continue
        if new == base:
            continue
        # a one-line description: the first differing line
        a, b = base.splitlines(), new.splitlines()
        d = next(((x, y) for x, y in zip(a, b) if x != y), ('', ''))
        muts.append((fn, kind, d[0].strip()[:90], d[1].strip()[:90], new))
    # de-duplicate identical texts
    seen, out = set(), []
    for m in muts:
        if m[4] not in seen:
            seen.add(m[4])
            out.append(m)
    return out


def run(m):
    fn, kind, old, new, text = m
    d = tempfile.mkdtemp(prefix='pyins_survey_')
    try:
        shutil.copytree(os.path.join(REPO, 'pyins'), os.path.join(d, 'pyins'),
                        ignore=shutil.ignore_patterns('__pycache__', 'tests'))
        open(os.path.join(d, 'pyins', fn), 'w').write(text + '\n')
        verdict = {}
        for p in PROPS:
            try:
                r = subprocess.run(['/venv/bin/python', '-I', CHECK, p, '--root', d,
                                    '--no-evidence'], capture_output=True, text=True, timeout=900)
            except subprocess.TimeoutExpired:
                verdict[p] = 'timeout'
                continue
            if r.returncode != 0:
                verdict[p] = r.returncode
                if r.returncode == 1:
                    break
        return m[:4], verdict
    finally:
        shutil.rmtree(d, ignore_errors=True)


if __name__ == '__main__':
    files = sorted(f for f in os.listdir(os.path.join(REPO, 'pyins'))
                   if f.endswith('.py') and f != '__init__.py')
    if len(sys.argv) > 1:
        files = [f for f in files if any(a in f for a in sys.argv[1:])]
    muts = []
    for fn in files:
        muts += make_mutants(fn)
    only = os.environ.get('SURVEY_ONLY')
    if only:
        # re-run only the mutants recorded (SURVIVOR / EXIT2 lines) in an earlier result file
        keys = set()
        for line in open(only):
            parts = line.rstrip('\n').split(' ', 1)
            if len(parts) == 2 and parts[0] in ('SURVIVOR', 'EXIT2'):
                body = parts[1].strip()
                if parts[0] == 'EXIT2':
                    body = body.rsplit(' | ', 1)[0]
                keys.add(body)
        muts = [m for m in muts if '%s %s | %s -> %s' % m[:4] in keys]
    mx = int(os.environ.get('SURVEY_MAX', '0'))
    if mx:
        import random
        random.Random(1).shuffle(muts)
        muts = muts[:mx]
    print('%d mutants in %s' % (len(muts), files))
    sys.stdout.flush()
    os.makedirs('/verif/out', exist_ok=True)
    caught = err = surv = 0
    with open(os.environ.get('SURVEY_OUT', '/verif/out/mutation_survivors.txt'), 'a') as fh, \
            ThreadPoolExecutor(max_workers=int(os.environ.get('SURVEY_WORKERS', '14'))) as ex:
        for (fn, kind, old, new), verdict in ex.map(run, muts):
            if any(v == 1 for v in verdict.values()):
                caught += 1
            elif verdict:
                err += 1
                fh.write('EXIT2    %s %s | %s -> %s | %s\n' % (fn, kind, old, new, sorted(verdict)))
            else:
                surv += 1
                fh.write('SURVIVOR %s %s | %s -> %s\n' % (fn, kind, old, new))
            fh.flush()
    print('caught %d, analysis-error only %d, survivors %d' % (caught, err, surv))
