#!/venv/bin/python -I
"""Static checks for the pyins properties.

usage: check.py Cxx [--tier quick|thorough] [--root DIR] [--no-evidence] [--replay F]

exit 0: every rule instance holds (KNOWN-FINDING lines allowed)
exit 1: VIOLATION property=<id> replay=<path>
exit 2: ANALYSIS-ERROR (anchor vanished, coverage floor, internal error)
"""
import argparse
import os
import sys
import traceback

sys.path.insert(0, os.path.dirname(os.path.abspath(__file__)))


def main(argv=None):
    ap = argparse.ArgumentParser()
    ap.add_argument('prop')
    ap.add_argument('--tier', default=os.environ.get('VERIF_TIER', 'quick'))
    ap.add_argument('--root', default=None)
    ap.add_argument('--no-evidence', action='store_true')
    ap.add_argument('--replay', default=None)
    ap.add_argument('--no-selftest', action='store_true')
    ap.add_argument('--findings', default=None)
    a = ap.parse_args(argv)
    prop = a.prop.upper()
    try:
        from pyins_sa.report import Ctx
        from pyins_sa.model import AnalysisError
        from pyins_sa import props
        if prop not in props.PROPS:
            print('ANALYSIS-ERROR unknown property %s' % prop)
            return 2
        tier = a.tier if a.tier in ('quick', 'thorough') else 'quick'
        ctx = Ctx(prop, tier, a.root, write_evidence=not a.no_evidence)
        ctx.findings_path = a.findings
        # watchdog for the rule phase: a change to the analysed code that makes a normal form
        # explode must end as an analysis error (exit 2), not as a check that never returns
        import signal
        budget = float(os.environ.get('PYINS_SA_BUDGET', '600'))

        def _expired(signum, frame):
            raise TimeoutError('the rules did not finish within %.0f s (PYINS_SA_BUDGET)' % budget)
        if hasattr(signal, 'setitimer'):
            signal.signal(signal.SIGALRM, _expired)
            signal.setitimer(signal.ITIMER_REAL, budget)
        try:
            props.run(ctx)
        finally:
            if hasattr(signal, 'setitimer'):
                signal.setitimer(signal.ITIMER_REAL, 0)
        if tier == 'thorough' and not a.no_selftest:
            from pyins_sa import selftest
            selftest.run(ctx)
        rc = ctx.finish()
        if rc == 0 and getattr(ctx, 'selftest_disagree', 0):
            print('ANALYSIS-ERROR property=%s self-test disagreement: the rules did not give the '
                  'expected verdict on %d variant(s) of the current tree (see SELFTEST-DISAGREE '
                  'lines)' % (prop, ctx.selftest_disagree))
            return 2
        return rc
    except Exception as e:           # noqa
        name = type(e).__name__
        print('ANALYSIS-ERROR property=%s %s: %s' % (prop, name, e))
        if name != 'AnalysisError':
            traceback.print_exc()
        return 2


if __name__ == '__main__':
    sys.exit(main())
